"""
The case space shared by C01 and C02: (signature, typed values, byte order, offset).
A case is identified by (stream, index) and regenerated deterministically from the seed.
"""
import random

from harness import gen, ref_grammar as G

ENUM_ALPHABET = 'yqixsv'       # one representative per alignment class + string + variant


def case_rng(seed, stream, idx):
    return random.Random('%s/%s/%s' % (seed, stream, idx))


def enumerated(tier, shard):
    """(index, signature, [(little, offset)...]) for the bounded-exhaustive part."""
    si, sn = shard or (0, 1)
    full_len = 4 if tier == 'quick' else 5
    samp_len = 5 if tier == 'quick' else 6
    combos = [(le, off) for le in (True, False) for off in range(8)]
    idx = 0
    for sig in G.enumerate_signatures(samp_len, ENUM_ALPHABET):
        idx += 1
        if idx % sn != si:
            continue
        if len(sig) <= full_len:
            yield idx, sig, combos
        else:
            yield idx, sig, [combos[idx % 16]]


def random_case(seed, idx, big=False):
    """Random signature (sometimes at the nesting limits) with generated values."""
    r = case_rng(seed, 'rand', idx)
    g = gen.Gen(r, max_depth=r.choice([2, 3, 4, 6]), big=big)
    k = r.random()
    if k < 0.08:
        sig = g.deep_signature()
        g.max_arr = 2
    elif k < 0.16:
        # many types in a row, up to the 255 limit
        parts = []
        total = 0
        while True:
            p = g.single(depth=2)
            if total + len(p) > r.choice([60, 255]):
                break
            parts.append(p)
            total += len(p)
        sig = ''.join(parts)
    else:
        sig = g.signature()
    vals = g.values(sig)
    little = r.random() < 0.5
    off = r.choice([0, 1, 2, 3, 4, 5, 6, 7, r.randint(8, 64)])
    return r, sig, vals, little, off
