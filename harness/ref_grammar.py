"""
Reference recognisers written from the DBus specification (no code shared with txdbus).

Names:  object path, interface name, error name, bus name, member name.
Types:  signature recogniser / splitter into single complete types, with the
        specification's limits (255 bytes, array depth 32, struct depth 32).
"""

_ALPHA = set('ABCDEFGHIJKLMNOPQRSTUVWXYZabcdefghijklmnopqrstuvwxyz_')
_DIGIT = set('0123456789')
_ALNUM = _ALPHA | _DIGIT

BASIC = 'ybnqiuxtdsogh'


def _nbytes(s):
    try:
        return len(s.encode('utf-8'))
    except UnicodeEncodeError:
        return len(s) * 4


def valid_object_path(p):
    if not isinstance(p, str) or not p or p[0] != '/':
        return False
    if p == '/':
        return True
    for el in p[1:].split('/'):
        if not el:
            return False
        for c in el:
            if c not in _ALNUM:
                return False
    return True


def _elements_ok(els, allow_digit_first, extra=''):
    for el in els:
        if not el:
            return False
        if not allow_digit_first and el[0] in _DIGIT:
            return False
        for c in el:
            if c not in _ALNUM and c not in extra:
                return False
    return True


def valid_interface_name(n):
    if not isinstance(n, str) or not n or _nbytes(n) > 255:
        return False
    els = n.split('.')
    if len(els) < 2:
        return False
    return _elements_ok(els, False)


valid_error_name = valid_interface_name


def valid_bus_name(n):
    if not isinstance(n, str) or not n or _nbytes(n) > 255:
        return False
    if n[0] == ':':
        els = n[1:].split('.')
        if len(els) < 2:
            return False
        return _elements_ok(els, True, '-')
    els = n.split('.')
    if len(els) < 2:
        return False
    return _elements_ok(els, False, '-')


def valid_member_name(n):
    if not isinstance(n, str) or not n or _nbytes(n) > 255:
        return False
    if n[0] in _DIGIT:
        return False
    for c in n:
        if c not in _ALNUM:
            return False
    return True


VALIDATORS = {
    'object_path': valid_object_path,
    'interface': valid_interface_name,
    'error': valid_error_name,
    'bus': valid_bus_name,
    'member': valid_member_name,
}


# --------------------------------------------------------------------------- signatures

class SigError(Exception):
    pass


def _parse_one(sig, i, adepth, sdepth):
    """Parse one single complete type starting at sig[i]; return index after it."""
    if i >= len(sig):
        raise SigError('truncated')
    c = sig[i]
    if c in BASIC or c == 'v':
        return i + 1
    if c == 'a':
        if adepth + 1 > 32:
            raise SigError('array nesting > 32')
        if i + 1 < len(sig) and sig[i + 1] == '{':
            # dict entry: a{ basic T }
            j = i + 2
            if j >= len(sig) or sig[j] not in BASIC:
                raise SigError('dict key not basic')
            if sdepth + 1 > 32:
                raise SigError('struct nesting > 32')
            j = _parse_one(sig, j + 1, adepth + 1, sdepth + 1)
            if j >= len(sig) or sig[j] != '}':
                raise SigError('dict entry must have exactly two fields')
            return j + 1
        return _parse_one(sig, i + 1, adepth + 1, sdepth)
    if c == '(':
        if sdepth + 1 > 32:
            raise SigError('struct nesting > 32')
        j = i + 1
        n = 0
        while True:
            if j >= len(sig):
                raise SigError('unterminated struct')
            if sig[j] == ')':
                break
            j = _parse_one(sig, j, adepth, sdepth + 1)
            n += 1
        if n == 0:
            raise SigError('empty struct')
        return j + 1
    raise SigError('bad type code %r' % c)


def split_signature(sig):
    """List of single complete types of a valid signature; raises SigError otherwise."""
    if not isinstance(sig, str):
        raise SigError('not a string')
    if len(sig) > 255:
        raise SigError('too long')
    out = []
    i = 0
    while i < len(sig):
        j = _parse_one(sig, i, 0, 0)
        out.append(sig[i:j])
        i = j
    return out


def valid_signature(sig):
    try:
        split_signature(sig)
        return True
    except SigError:
        return False


def is_single_complete_type(sig):
    try:
        return len(split_signature(sig)) == 1
    except SigError:
        return False


def struct_fields(ct):
    """Fields of '(...)' or '{..}' complete type."""
    return split_signature_unchecked(ct[1:-1])


def split_signature_unchecked(sig):
    """Splitter without the depth/length limits (used inside containers)."""
    out = []
    i = 0
    while i < len(sig):
        j = _skip(sig, i)
        out.append(sig[i:j])
        i = j
    return out


def _skip(sig, i):
    c = sig[i]
    if c == 'a':
        return _skip(sig, i + 1)
    if c in '({':
        close = ')' if c == '(' else '}'
        j = i + 1
        while sig[j] != close:
            j = _skip(sig, j)
        return j + 1
    return i + 1


ALIGN = {'y': 1, 'b': 4, 'n': 2, 'q': 2, 'i': 4, 'u': 4, 'x': 8, 't': 8, 'd': 8,
         's': 4, 'o': 4, 'g': 1, 'a': 4, '(': 8, 'v': 1, '{': 8, 'h': 4}

FIXED_SIZE = {'y': 1, 'b': 4, 'n': 2, 'q': 2, 'i': 4, 'u': 4, 'x': 8, 't': 8, 'd': 8, 'h': 4}


def can_encode_to_zero_bytes(ct):
    """True if a value of this (possibly invalid) type could occupy zero bytes."""
    c = ct[:1]
    if c in '({':
        inner = ct[1:-1]
        if not inner:
            return True
        try:
            parts = split_signature_unchecked(inner)
        except IndexError:
            return False
        return all(can_encode_to_zero_bytes(p) for p in parts)
    return False


def enumerate_signatures(max_len, alphabet='yqisvh', single=False):
    """
    Every valid signature of length 1..max_len whose basic type codes come from
    `alphabet` (one representative per alignment class by default) — containers
    'a', '(', ')', '{', '}' always included.  Yields strings in length order.
    """
    basics = [c for c in alphabet if c in BASIC]
    has_v = 'v' in alphabet
    memo = {}

    def singles(n):
        """all single complete types of exact length n"""
        if n in memo:
            return memo[n]
        res = []
        if n == 1:
            res = list(basics) + (['v'] if has_v else [])
        elif n >= 2:
            # array
            for t in singles(n - 1):
                res.append('a' + t)
            # dict: a{kT}  length = 4 + len(T) - ... 'a{' + k + T + '}' => 4 + len(T)
            if n >= 5:
                for t in singles(n - 4):
                    for k in basics:
                        res.append('a{' + k + t + '}')
            # struct: '(' + seq(n-2) + ')'
            if n >= 3:
                for s in seqs(n - 2):
                    res.append('(' + s + ')')
        memo[n] = res
        return res

    smemo = {}

    def seqs(n):
        """all non-empty sequences of single complete types with total length n"""
        if n in smemo:
            return smemo[n]
        res = []
        for k in range(1, n + 1):
            heads = singles(k)
            if k == n:
                res.extend(heads)
            else:
                tails = seqs(n - k)
                for h in heads:
                    for t in tails:
                        res.append(h + t)
        smemo[n] = res
        return res

    for n in range(1, max_len + 1):
        for s in (singles(n) if single else seqs(n)):
            if valid_signature(s):
                yield s
