"""
Grammar-directed generators: signatures, typed value trees, and the Python objects
handed to txdbus for them.  Everything is a pure function of the random.Random passed in.
"""
import math
import struct

from harness import ref_grammar as G
from harness.ref_codec import Variant

BASIC = 'ybnqiuxtdsog'          # 'h' handled separately (needs an out-of-band list)

INT_BOUNDS = {
    'y': [0, 1, 127, 128, 254, 255],
    'n': [-2**15, -2**15 + 1, -1, 0, 1, 2**15 - 2, 2**15 - 1],
    'q': [0, 1, 2**15, 2**16 - 2, 2**16 - 1, 0x0A0D, 0x0D0A],
    'i': [-2**31, -2**31 + 1, -1, 0, 1, 2**31 - 2, 2**31 - 1, 0x0A0D, 0x0D0A0D0A],
    'u': [0, 1, 2**31 - 1, 2**31, 2**32 - 2, 2**32 - 1, 0x0A0D],
    'x': [-2**63, -2**63 + 1, -2**31 - 1, -1, 0, 1, 2**31, 2**63 - 2, 2**63 - 1],
    't': [0, 1, 2**32, 2**63 - 1, 2**63, 2**64 - 2, 2**64 - 1],
}
INT_RANGE = {'y': (0, 255), 'n': (-2**15, 2**15 - 1), 'q': (0, 2**16 - 1), 'i': (-2**31, 2**31 - 1),
             'u': (0, 2**32 - 1), 'x': (-2**63, 2**63 - 1), 't': (0, 2**64 - 1)}

DOUBLES = [0.0, -0.0, 1.0, -1.5, float('inf'), float('-inf'), float('nan'), 5e-324, 2.2250738585072014e-308,
           1.7976931348623157e308, -1.7976931348623157e308, 1e-310, math.pi, 2.0**53, 0.1]

STRINGS = ['', 'a', 'hello', 'é', '€', '\U0001F600', 'aé€\U0001F600z', '\r\n', 'x\r\ny', ' ', 'l', 'B',
           # characters codecs and "cleaning" code like to eat or rewrite: a leading U+FEFF (byte-order mark), U+FFFE,
           # non-characters, combining marks and strings that normalisation would change, surrounding white space
           '\ufeffhello', '\ufeff', 'x\ufeff', '\ufffe', 'e\u0301', '\u00e9', ' padded ', '\tx\n', '\u2028', '\x7f',
           'tab\there', "it's", 'a,b=c', '\x01\x7f', 'ࠀ￿', 'a' * 255, 'b' * 256]

PATHS = ['/', '/a', '/a/b', '/a/bc', '/org/freedesktop/DBus', '/_/0/A_9', '/a/b/c/d/e/f/g/h']

SIGS = ['', 'i', 's', 'ai', 'a{sv}', '(ii)', 'a(ss)', 'v', 'aaai', '(a{s(iv)}h)', 'y' * 255]


class Gen:
    def __init__(self, rng, max_depth=4, max_str=24, max_arr=5, allow_h=True, big=False, free_variants=False):
        self.free_variants = free_variants   # variant contents of any type (foreign encoder), not only inferable
        self.r = rng
        self.max_depth = max_depth
        self.max_str = max_str
        self.max_arr = max_arr
        self.allow_h = allow_h
        self.big = big

    # ----------------------------------------------------------------- signatures
    def single(self, depth=None, inferable=False, adepth=0, sdepth=0, budget=40, no_v=False):
        """One random single complete type.  inferable: a type whose values txdbus can infer when
        they travel in a variant (no 'h'; no variant inside array/dict elements, where inference is
        first-element based and heterogeneous contents are C19's subject)."""
        r = self.r
        if depth is None:
            depth = self.max_depth
        basics = BASIC + ('h' if (self.allow_h and not inferable) else '')
        if depth <= 0 or budget <= 1 or r.random() < 0.35:
            if r.random() < 0.12 and not no_v:
                return 'v'
            return r.choice(basics)
        k = r.random()
        el_no_v = no_v or inferable
        if k < 0.35 and adepth < 32:
            return 'a' + self.single(depth - 1, inferable, adepth + 1, sdepth, budget - 1, el_no_v)
        if k < 0.55 and adepth < 32 and sdepth < 32 and budget > 5:
            key = r.choice(BASIC)
            return 'a{' + key + self.single(depth - 1, inferable, adepth + 1, sdepth + 1, budget - 4, el_no_v) + '}'
        if k < 0.9 and sdepth < 32 and budget > 3:
            n = r.choice([1, 1, 2, 2, 3, 4])
            parts = []
            b = budget - 2
            for _ in range(n):
                if b <= 0:
                    break
                p = self.single(depth - 1, inferable, adepth, sdepth + 1, max(1, b // 2), no_v)
                parts.append(p)
                b -= len(p)
            return '(' + ''.join(parts) + ')'
        return r.choice(basics) if no_v else 'v'

    def signature(self, max_types=4, max_len=255, inferable=False):
        n = self.r.choice([0, 1, 1, 1, 2, 2, 3, max_types])
        parts = []
        total = 0
        for _ in range(n):
            p = self.single(inferable=inferable)
            if total + len(p) > max_len:
                break
            parts.append(p)
            total += len(p)
        s = ''.join(parts)
        assert G.valid_signature(s), s
        return s

    def deep_signature(self):
        """Signatures at the specification's nesting limits."""
        r = self.r
        k = r.randrange(6)
        leaf = r.choice('yqistd')
        if k == 0:
            return 'a' * r.choice([31, 32]) + leaf
        if k == 1:
            n = r.choice([31, 32])
            return '(' * n + leaf + ')' * n
        if k == 2:
            n = r.choice([16, 31, 32])
            return ''.join('a(' for _ in range(n)) + leaf + ')' * n       # array depth n, struct depth n
        if k == 3:
            n = r.choice([8, 15])
            s = leaf
            for _ in range(n):
                s = 'a{s' + s + '}'
            return s
        if k == 4:
            return leaf * r.choice([200, 254, 255])
        n = r.choice([10, 20])
        return '(' * n + 'a' * n + leaf + ')' * n

    # ----------------------------------------------------------------- values (typed trees)
    def value(self, ct, depth=0, in_variant=False, nested=False):
        """Typed tree for complete type ct.  in_variant: the value will travel inside a
        variant whose signature txdbus has to infer (no 'h', no nested empty containers)."""
        r = self.r
        c = ct[0]
        if c in INT_RANGE:
            if r.random() < 0.5:
                return r.choice(INT_BOUNDS[c])
            lo, hi = INT_RANGE[c]
            return r.randint(lo, hi)
        if c == 'b':
            return r.random() < 0.5
        if c == 'd':
            if r.random() < 0.5:
                return r.choice(DOUBLES)
            return struct.unpack('<d', struct.pack('<q', r.randint(-2**63, 2**63 - 1)))[0]
        if c == 's':
            return self.string()
        if c == 'o':
            return self.path()
        if c == 'g':
            if r.random() < 0.5:
                return r.choice(SIGS)
            return self.signature(max_types=3)
        if c == 'h':
            return r.randrange(0, 1 << 16)      # placeholder; index assigned by the caller
        if c == 'a':
            et = ct[1:]
            small = depth >= 2
            hi = 2 if small else self.max_arr
            lo = 1 if (in_variant and nested) else 0
            n = r.choice([lo, lo, 1, 2, hi]) if not (self.big and depth == 0 and r.random() < 0.05) \
                else r.randint(50, 300)
            n = max(lo, n)
            if et[0] == '{':
                kt, vt = G.struct_fields(et)
                items = []
                seen = set()
                for _ in range(n):
                    k = self.value(kt, depth + 1, in_variant, True)
                    hk = ('nan',) if (isinstance(k, float) and k != k) else k
                    if hk in seen:
                        continue
                    if isinstance(k, float) and k != k:
                        continue            # NaN keys are not comparable after a round trip
                    seen.add(hk)
                    items.append((k, self.value(vt, depth + 1, in_variant, True)))
                if not items and lo:
                    k = self.value(kt, depth + 1, in_variant, True)
                    while isinstance(k, float) and k != k:
                        k = self.value(kt, depth + 1, in_variant, True)
                    items.append((k, self.value(vt, depth + 1, in_variant, True)))
                return items
            return [self.value(et, depth + 1, in_variant, True) for _ in range(n)]
        if c == '(':
            return [self.value(ft, depth + 1, in_variant, True) for ft in G.struct_fields(ct)]
        if c == 'v' and self.free_variants:
            vs = self.single(depth=max(0, 2 - depth // 2)) if depth < 10 else self.r.choice('isdbuv')
            if depth >= 24:
                vs = self.r.choice('isdbu')
            return Variant(vs, self.value(vs, depth + 1, False, False))
        if c == 'v':
            vs = self.single(depth=max(0, 2 - depth), inferable=True) if depth < 6 else self.r.choice('isdbu')
            # a variant cannot (be inferred to) hold a bare variant
            while vs == 'v':
                vs = self.single(depth=1, inferable=True)
            return Variant(vs, self.value(vs, depth + 1, True, False))
        raise ValueError(ct)

    def string(self):
        r = self.r
        k = r.random()
        if k < 0.4:
            return r.choice(STRINGS)
        if k < 0.43 and self.big:
            return 'L' * r.choice([1000, 4095, 4096, 70000])
        n = r.randint(0, self.max_str)
        alphabet = 'abcXYZ019 _-./:\r\n\'"=,é€\U0001F600ࠀ'
        return ''.join(r.choice(alphabet) for _ in range(n))

    def path(self):
        r = self.r
        if r.random() < 0.5:
            return r.choice(PATHS)
        n = r.randint(1, 5)
        return '/' + '/'.join(''.join(r.choice('abAB01_') for _ in range(r.randint(1, 4))) for _ in range(n))

    def values(self, sig):
        return [self.value(ct) for ct in G.split_signature(sig)]


# --------------------------------------------------------------------------- python inputs for txdbus

class _Ordered:
    """Object declaring its field order (the third way to pass a struct)."""

    def __init__(self, fields):
        self.dbusOrder = []
        for i, f in enumerate(fields):
            name = 'f%d' % i
            setattr(self, name, f)
            self.dbusOrder.append(name)

    def __repr__(self):
        return '_Ordered(%r)' % ([getattr(self, n) for n in self.dbusOrder],)


LOOSE_BOOL = False      # set by C02 only: C01's equality claim is about bool values


def py_input(ct, tv, rng, fds=None, in_variant=False, marshal_mod=None, plain=False):
    """
    Python object to hand to txdbus.marshal for typed value tv of type ct.
      fds:        list collecting descriptor tokens for 'h' (token = object passed to marshal)
      in_variant: use wrapper classes / tuples so that sigFromPy can infer a type
      plain:      only lists/dicts (no tuples, bytearrays, ordered objects)
    """
    m = marshal_mod
    c = ct[0]
    if c in 'ybnqiuxtdsog':
        if not in_variant:
            if c == 'b' and LOOSE_BOOL and rng.random() < 0.3:
                # callers hand truthy / falsy integers to a BOOLEAN (flags & 4, len(x)): the wire value is still 0 or 1
                return rng.choice([2, 8, 255, 2 ** 31]) if tv else 0
            return tv
        if c == 'i':
            return tv if rng.random() < 0.8 else m.Int32(tv)
        if c == 'b':
            return tv if rng.random() < 0.8 else m.Boolean(tv)
        if c in 'ds':
            return tv
        cls = {'y': m.Byte, 'n': m.Int16, 'q': m.UInt16, 'u': m.UInt32, 'x': m.Int64, 't': m.UInt64,
               'g': m.Signature, 'o': m.ObjectPath}[c]
        return cls(tv)
    if c == 'h':
        tok = FdToken(len(fds))
        fds.append(tok)
        return tok
    if c == 'a':
        et = ct[1:]
        if et[0] == '{':
            kt, vt = G.struct_fields(et)
            pairs = [(py_input(kt, k, rng, fds, in_variant, m, plain),
                      py_input(vt, v, rng, fds, in_variant, m, plain)) for k, v in tv]
            if in_variant or plain or rng.random() < 0.7:
                return dict(pairs)
            if rng.random() < 0.5:
                return [list(p) for p in pairs]
            return [tuple(p) for p in pairs]
        items = [py_input(et, x, rng, fds, in_variant, m, plain) for x in tv]
        if et == 'y' and not plain and rng.random() < (0.5 if not in_variant else 0.3):
            return bytearray(tv)
        if not in_variant and not plain and rng.random() < 0.15:
            return tuple(items)
        return items
    if c == '(':
        fields = [py_input(ft, fv, rng, fds, in_variant, m, plain)
                  for ft, fv in zip(G.struct_fields(ct), tv)]
        if in_variant:
            return tuple(fields)
        if plain:
            return fields
        k = rng.random()
        if k < 0.5:
            return fields
        if k < 0.8:
            return tuple(fields)
        return _Ordered(fields)
    if c == 'v':
        return py_input(tv.sig, tv.value, rng, fds, True, m, plain)
    raise ValueError(ct)


class FdToken:
    """Stands for a file descriptor: unique per position in the out-of-band list."""
    __slots__ = ('idx',)

    def __init__(self, idx):
        self.idx = idx

    def __repr__(self):
        return 'FD#%d' % self.idx

    def __bool__(self):
        # descriptor 0 is a descriptor: every other token is falsy, like the integer 0
        return self.idx % 2 == 1


def normalise(ct, v):
    """The statement's normalisation of an input value: tuples read back as lists, byte arrays
    as lists of integers, typed wrappers as their plain value, ordered objects as field lists."""
    c = ct[0]
    if c == 'b':
        return bool(v)
    if c in 'ynqiuxt':
        return int(v)
    if c == 'd':
        return float(v)
    if c in 'sog':
        return str(v)
    if c == 'h':
        return v
    if c == 'a':
        et = ct[1:]
        if et[0] == '{':
            kt, vt = G.struct_fields(et)
            items = v.items() if isinstance(v, dict) else v
            return {normalise(kt, k): normalise(vt, x) for k, x in items}
        return [normalise(et, x) for x in v]
    if c == '(':
        if hasattr(v, 'dbusOrder'):
            v = [getattr(v, n) for n in v.dbusOrder]
        return [normalise(ft, fv) for ft, fv in zip(G.struct_fields(ct), v)]
    if c == 'v':
        return normalise_any(v)
    raise ValueError(ct)


def normalise_any(v):
    """Normalisation of a value travelling in a variant (type known only by inference)."""
    if isinstance(v, bool):
        return v
    if isinstance(v, int):
        if getattr(v, 'dbusSignature', None) == 'b':
            return bool(v)
        return int(v)
    if isinstance(v, float):
        return float(v)
    if isinstance(v, str):
        return str(v)
    if isinstance(v, bytearray):
        return list(v)
    if isinstance(v, (list, tuple)):
        return [normalise_any(x) for x in v]
    if isinstance(v, dict):
        return {normalise_any(k): normalise_any(x) for k, x in v.items()}
    return v


def fd_to_index(v):
    """Replace FdToken by its index (what the wire carries) in a plain value."""
    if isinstance(v, FdToken):
        return v.idx
    if isinstance(v, list):
        return [fd_to_index(x) for x in v]
    if isinstance(v, dict):
        return {fd_to_index(k): fd_to_index(x) for k, x in v.items()}
    return v


def contains(sig, code):
    return code in sig


def shape_of(sig):
    """Signature with basic codes collapsed to their alignment class (distinctness measure)."""
    tr = {'y': '1', 'g': '1', 'n': '2', 'q': '2', 'b': '4', 'i': '4', 'u': '4', 'h': '4', 's': 'S', 'o': 'S',
          'x': '8', 't': '8', 'd': '8'}
    return ''.join(tr.get(c, c) for c in sig)


def nesting(sig):
    d = m = 0
    for c in sig:
        if c in 'a':
            m = max(m, d + 1)
        if c in '({':
            d += 1
            m = max(m, d)
        elif c in ')}':
            d -= 1
    return m
