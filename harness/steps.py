"""
Interpreter-step meter on sys.monitoring (Python 3.12): counts LINE and PY_START/PY_RESUME
events that happen *inside txdbus code objects only* (events are enabled locally on those code
objects), can abort a runaway operation, and doubles as a reach counter (which txdbus
functions executed).

The budget exception derives from BaseException and, once raised, is raised again on every
further event until the meter is reset, so a broad `except` inside the subject cannot resume a
runaway loop.
"""
import sys
import types

TOOL = 4
_mon = sys.monitoring


class StepBudgetExceeded(BaseException):
    pass


class Meter:
    def __init__(self):
        self.steps = 0
        self.limit = None
        self.tripped = False
        self.calls = {}
        self.installed = False
        self.ncode = 0

    # ------------------------------------------------------------------ install
    def install(self, package='txdbus'):
        if self.installed:
            return
        try:
            _mon.use_tool_id(TOOL, 'txdbus-verif-steps')
        except ValueError:
            pass
        ev = _mon.events
        _mon.register_callback(TOOL, ev.LINE, self._line)
        _mon.register_callback(TOOL, ev.PY_START, self._start)
        _mon.register_callback(TOOL, ev.PY_RESUME, self._start)
        seen = set()
        for name, mod in list(sys.modules.items()):
            if name == package or name.startswith(package + '.'):
                if mod is None:
                    continue
                for obj in list(vars(mod).values()):
                    self._walk(obj, mod.__name__, seen)
        self.ncode = len(seen)
        self.installed = True

    def _walk(self, obj, modname, seen, depth=0):
        if depth > 6:
            return
        if isinstance(obj, (staticmethod, classmethod)):
            obj = obj.__func__
        if isinstance(obj, property):
            for f in (obj.fget, obj.fset, obj.fdel):
                if f is not None:
                    self._walk(f, modname, seen, depth + 1)
            return
        if isinstance(obj, types.FunctionType):
            if obj.__module__ == modname or (obj.__module__ or '').startswith('txdbus'):
                self._code(obj.__code__, seen)
            return
        if isinstance(obj, type):
            if (obj.__module__ or '').startswith('txdbus'):
                for v in list(vars(obj).values()):
                    self._walk(v, obj.__module__, seen, depth + 1)
            return
        if isinstance(obj, dict) and depth < 2:
            for v in list(obj.values()):
                if isinstance(v, types.FunctionType):
                    self._walk(v, modname, seen, depth + 1)

    def _code(self, code, seen):
        if code in seen:
            return
        seen.add(code)
        ev = _mon.events
        _mon.set_local_events(TOOL, code, ev.LINE | ev.PY_START | ev.PY_RESUME)
        for c in code.co_consts:
            if isinstance(c, types.CodeType):
                self._code(c, seen)

    # ------------------------------------------------------------------ callbacks
    def _line(self, code, lineno):
        self.steps += 1
        if self.limit is not None and self.steps > self.limit:
            self.tripped = True
            raise StepBudgetExceeded(self.steps)

    def _start(self, code, offset):
        self.steps += 1
        n = code.co_qualname
        self.calls[n] = self.calls.get(n, 0) + 1
        if self.limit is not None and self.steps > self.limit:
            self.tripped = True
            raise StepBudgetExceeded(self.steps)

    # ------------------------------------------------------------------ use
    def start(self, limit=None):
        self.steps = 0
        self.limit = limit
        self.tripped = False

    def stop(self):
        n = self.steps
        self.limit = None
        return n

    def run(self, limit, fn, *a, **kw):
        """Returns (outcome, value, steps): outcome in 'ok' | 'exception' | 'budget' | 'base-exception'."""
        self.start(limit)
        try:
            v = fn(*a, **kw)
            out = ('ok', v)
        except StepBudgetExceeded as e:
            out = ('budget', e)
        except Exception as e:
            out = ('budget', e) if self.tripped else ('exception', e)
        except BaseException as e:      # SystemExit, KeyboardInterrupt, GeneratorExit ...
            out = ('budget', e) if self.tripped else ('base-exception', e)
        n = self.stop()
        return out[0], out[1], n


METER = Meter()
