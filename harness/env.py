"""
Common run-time environment of every check: locating the repository under test,
seed / tier handling, counters, known-finding classification, evidence and verdict.

Verdicts are three-valued (DESIGN.md 1.3):
  exit 0  held on what was observed (KNOWN-FINDING lines allowed)
  exit 1  VIOLATION property=<id> replay=<path>
  exit 2  INCONCLUSIVE property=<id> reason=...
"""
import faulthandler
import hashlib
import json
import os
import random
import sys
import time

VERIF = os.path.dirname(os.path.dirname(os.path.abspath(__file__)))
REPO = os.path.abspath(os.environ.get('TXDBUS_REPO', '/repo'))
GUARD = 'TXDBUS_VERIF'

os.environ.setdefault(GUARD, '1')
sys.dont_write_bytecode = True

if REPO not in sys.path:
    sys.path.insert(0, REPO)
# never pick up an installed copy
for _m in [m for m in sys.modules if m == 'txdbus' or m.startswith('txdbus.')]:
    del sys.modules[_m]

import txdbus  # noqa: E402

_txfile = os.path.abspath(txdbus.__file__)
if not _txfile.startswith(REPO + os.sep):
    print('INCONCLUSIVE reason=txdbus imported from %s, not from %s' % (_txfile, REPO))
    sys.exit(2)


class Inconclusive(Exception):
    pass


# Twisted's log: keep it off stderr, but count what was logged as an error (diagnostic only, e.g.
# "Unhandled error in Deferred" or exceptions the reactor would have logged).
TWISTED_ERRORS = []


def _observer(event):
    if event.get('isError'):
        if len(TWISTED_ERRORS) < 1000:
            f = event.get('failure')
            TWISTED_ERRORS.append(repr(f.value)[:200] if f is not None else str(event.get('why'))[:200])


try:
    from twisted.python import log as _tlog
    _tlog.startLoggingWithObserver(_observer, setStdout=False)
except Exception:
    pass


def jsonable(x, depth=0):
    """Best-effort conversion of arbitrary witness data into JSON-encodable data."""
    if depth > 12:
        return repr(x)[:200]
    if x is None or isinstance(x, (bool, int, str)):
        return x
    if isinstance(x, float):
        if x != x or x in (float('inf'), float('-inf')):
            return repr(x)
        return x
    if isinstance(x, (bytes, bytearray)):
        h = bytes(x).hex()
        if len(h) > 4096:
            h = h[:4096] + '...(%d bytes)' % len(x)
        return {'hex': h}
    if isinstance(x, dict):
        return {str(k) if not isinstance(k, str) else k: jsonable(v, depth + 1) for k, v in x.items()}
    if isinstance(x, (list, tuple, set, frozenset)):
        return [jsonable(v, depth + 1) for v in x]
    return repr(x)[:400]


class Ctx:
    """Per-run context handed to a check's run()."""

    def __init__(self, prop, level, tier, seed, replay=None, shard=None):
        self.prop = prop
        self.level = level
        self.tier = tier
        self.seed = seed
        self.replay = replay
        self.shard = shard           # (index, count) when run as a worker of a thorough run
        self.rng = random.Random('%s/%s' % (prop, seed))
        self.t0 = time.time()
        self.counters = {}
        self.distinct_sets = {}
        self.samples = []
        self.max_samples = 8
        self.notes = {}
        self.assumptions = []
        self.rule = ''
        self.exhaustive = None
        self.violations = []        # list of dict(key, what, witness, replay)
        self.known_hits = {}        # key -> count
        self.inconclusive = None
        self.truncated = False
        self._known = self._load_known()
        self._printed_known = set()
        self._printed_viol = set()
        self.deadline = None

    # ---------------------------------------------------------------- budgets
    def budget(self, seconds):
        """Wall-clock cap for a loop; hitting it is recorded as truncation, never a verdict."""
        self.deadline = time.time() + seconds

    def out_of_time(self):
        if self.deadline is not None and time.time() > self.deadline:
            self.truncated = True
            return True
        return False

    # ---------------------------------------------------------------- counting
    def count(self, name, n=1):
        self.counters[name] = self.counters.get(name, 0) + n

    def distinct(self, name, item):
        s = self.distinct_sets.get(name)
        if s is None:
            s = self.distinct_sets[name] = set()
        s.add(item)

    def ndistinct(self, name):
        return len(self.distinct_sets.get(name, ()))

    def sample(self, x, force=False):
        if force or len(self.samples) < self.max_samples:
            self.samples.append(jsonable(x))

    def note(self, k, v):
        self.notes[k] = jsonable(v)

    # ---------------------------------------------------------------- findings
    def _load_known(self):
        p = os.path.join(VERIF, 'known_findings.json')
        out = {}
        try:
            with open(p) as f:
                data = json.load(f)
        except FileNotFoundError:
            return out
        for e in data.get('findings', []):
            if e.get('property') == self.prop and e.get('status') == 'open':
                out[e['key']] = e
        return out

    def report(self, key, what, witness=None, case=None):
        """
        Report a refuting observation.  `key` is the mechanism key computed by the
        check's classifier from the witness (None when nothing matches).  A key listed
        as an *open* finding for this property is announced as KNOWN-FINDING and the
        run continues; anything else is a VIOLATION.
        """
        if key is not None and key in self._known:
            self.known_hits[key] = self.known_hits.get(key, 0) + 1
            if key not in self._printed_known:
                self._printed_known.add(key)
                print('KNOWN-FINDING: property=%s %s [%s]' % (
                    self.prop, self._known[key].get('what_fails', what), key))
                sys.stdout.flush()
            return False
        vkey = key or 'unclassified'
        rec = {'key': vkey, 'what': what, 'witness': jsonable(witness), 'case': jsonable(case)}
        first = vkey not in self._printed_viol
        if first or len(self.violations) < 50:
            self.violations.append(rec)
        if first:
            self._printed_viol.add(vkey)
            path = self._write_replay(rec)
            rec['replay'] = path
            print('VIOLATION property=%s replay=%s' % (self.prop, path))
            print('  mechanism=%s: %s' % (vkey, what))
            sys.stdout.flush()
        self.count('violations_observed')
        return True

    def _write_replay(self, rec):
        d = os.path.join(VERIF, 'replays')
        os.makedirs(d, exist_ok=True)
        body = json.dumps({'property': self.prop, 'seed': self.seed, 'tier': self.tier,
                           'key': rec['key'], 'what': rec['what'],
                           'case': rec['case'], 'witness': rec['witness']},
                          indent=1, sort_keys=True, default=repr)
        h = hashlib.sha1(body.encode()).hexdigest()[:10]
        path = os.path.join(d, '%s-%s.json' % (self.prop, h))
        with open(path, 'w') as f:
            f.write(body)
        return path

    def n_new_violations(self):
        return len(self._printed_viol)

    def stop_early(self):
        """True once enough distinct violations were found to stop exploring."""
        return len(self._printed_viol) >= 8

    # ---------------------------------------------------------------- verdict
    def require(self, cond, reason):
        """Reach requirement: if the deciding code was never observed the run is inconclusive."""
        if not cond and self.inconclusive is None:
            self.inconclusive = reason

    def evidence(self):
        cov = dict(self.counters)
        for k, s in self.distinct_sets.items():
            cov['distinct_' + k] = len(s)
        cov.setdefault('evaluations', self.counters.get('evaluations', 0))
        cov['rule'] = self.rule
        cov['samples'] = self.samples or ['(none)']
        if self.exhaustive is not None:
            cov['exhaustive'] = bool(self.exhaustive)
        cov['truncated_by_time'] = self.truncated
        cov['known_findings_hit'] = dict(self.known_hits)
        cov['twisted_logged_errors'] = len(TWISTED_ERRORS)
        cov.update(self.notes)
        if 'distinct_nontrivial' not in cov:
            cov['distinct_nontrivial'] = cov.get('distinct_nontrivial_cases', 0)
        ev = {
            'property_id': self.prop,
            'tier': self.tier if self.tier in ('quick', 'thorough') else 'quick',
            'seed': self.seed,
            'level': self.level,
            'coverage': cov,
            'assumptions': self.assumptions,
            'wall_s': round(time.time() - self.t0, 3),
            'violations': len(self._printed_viol),
            'repo': REPO,
            'verdict': ('violated' if self._printed_viol else
                        'inconclusive' if self.inconclusive else 'held-on-observed'),
        }
        if self.inconclusive:
            ev['inconclusive_reason'] = self.inconclusive
        if self._printed_viol:
            ev['violation_keys'] = sorted(self._printed_viol)
        return ev


def write_evidence(ctx, ev=None):
    ev = ev or ctx.evidence()
    d = os.path.join(VERIF, 'evidence')
    os.makedirs(d, exist_ok=True)
    path = os.path.join(d, '%s.json' % ctx.prop)
    tmp = path + '.tmp%d' % os.getpid()
    with open(tmp, 'w') as f:
        json.dump(ev, f, indent=1, sort_keys=True, default=repr)
        f.write('\n')
    os.replace(tmp, path)
    return path


def watchdog(seconds, ctx=None):
    """Generous wall-clock watchdog: firing means inconclusive (exit 2), never a violation.  Violations that were
    already reported (VIOLATION line and replay file written) before the run got stuck stand: exit 1."""
    faulthandler.enable()
    import threading

    def fire():
        sys.stdout.write('\nINCONCLUSIVE reason=watchdog-%ds\n' % seconds)
        sys.stdout.flush()
        faulthandler.dump_traceback()
        os._exit(1 if ctx is not None and ctx._printed_viol else 2)
    t = threading.Timer(seconds, fire)
    t.daemon = True
    t.start()
    # the timer thread needs the interpreter lock: code that keeps it (a regular expression backtracking for hours)
    # would never let it run.  The alarm is delivered to the main thread, which such code does poll.
    try:
        import signal
        signal.signal(signal.SIGALRM, lambda signum, frame: fire())
        signal.alarm(int(seconds) + 20)
    except (ValueError, AttributeError):
        pass
    return t
