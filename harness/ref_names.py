"""
Reference model of the message bus' name table (RequestName / ReleaseName / disconnect),
written from the specification.  Statement-silent points are explicit don't-cares handled by
the checker (fate of a replaced owner; reply code of ReleaseName issued by a queued client;
ListQueuedOwners of an unowned name).
"""

ALLOW_REPLACEMENT = 1
REPLACE_EXISTING = 2
DO_NOT_QUEUE = 4

PRIMARY_OWNER, IN_QUEUE, EXISTS, ALREADY_OWNER = 1, 2, 3, 4
RELEASED, NON_EXISTENT, NOT_OWNER = 1, 2, 3


class Names:
    def __init__(self):
        self.q = {}          # name -> list of [client, flags]; index 0 is the owner

    def owner(self, name):
        q = self.q.get(name)
        return q[0][0] if q else None

    def queue(self, name):
        return [c for c, _ in self.q.get(name, [])]

    def request(self, client, name, flags):
        """Returns (reply code, events, replaced_owner) — events: [('acquired'|'lost', client, name)]."""
        q = self.q.setdefault(name, [])
        ev = []
        if not q:
            q.append([client, flags])
            ev.append(('acquired', client, name))
            return PRIMARY_OWNER, ev, None
        if q[0][0] == client:
            q[0][1] = flags
            return ALREADY_OWNER, ev, None
        owner, oflags = q[0]
        if (flags & REPLACE_EXISTING) and (oflags & ALLOW_REPLACEMENT):
            # requester leaves whatever queue position it had and becomes owner
            q[:] = [e for e in q if e[0] != client]
            q.pop(0)
            q.insert(0, [client, flags])
            # fate of the replaced owner: don't care (dropped here; the checker accepts it re-queued too)
            ev.append(('lost', owner, name))
            ev.append(('acquired', client, name))
            return PRIMARY_OWNER, ev, owner
        if flags & DO_NOT_QUEUE:
            q[:] = [e for e in q if e[0] != client]
            return EXISTS, ev, None
        for e in q:
            if e[0] == client:
                e[1] = flags
                return IN_QUEUE, ev, None
        q.append([client, flags])
        return IN_QUEUE, ev, None

    def release(self, client, name):
        """Returns (set of acceptable reply codes, events)."""
        q = self.q.get(name)
        if not q:
            self.q.pop(name, None)
            return {NON_EXISTENT}, []
        if q[0][0] == client:
            q.pop(0)
            ev = [('lost', client, name)]
            if q:
                ev.append(('acquired', q[0][0], name))
            else:
                del self.q[name]
            return {RELEASED}, ev
        if any(e[0] == client for e in q):
            q[:] = [e for e in q if e[0] != client]
            return {RELEASED, NOT_OWNER}, []
        return {NOT_OWNER}, []

    def disconnect(self, client):
        ev = []
        for name in list(self.q):
            q = self.q[name]
            was_owner = q and q[0][0] == client
            q[:] = [e for e in q if e[0] != client]
            if was_owner and q:
                ev.append(('acquired', q[0][0], name))
            if not q:
                del self.q[name]
        return ev

    def requeue_replaced(self, name, old_owner, flags=0):
        """Alternative fate of a replaced owner: directly behind the new owner."""
        q = self.q[name]
        q.insert(1, [old_owner, flags])

    def state_key(self):
        return tuple(sorted((n, tuple((c, f) for c, f in q)) for n, q in self.q.items()))
