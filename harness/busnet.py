"""
A simulated network around the *real* built-in bus: every client link ends in a real
BusProtocol attached to the real Bus; the client end is either a scripted raw client (the
checker speaks the protocol itself through the reference codec, so sender fields can be forged
and every message type sent) or a real DBusClientConnection.  The harness owns delivery order
and read splitting on every link.
"""
from twisted.internet.error import ConnectionDone
from twisted.python.failure import Failure

from harness import ref_message as RM
from harness import simnet
from txdbus import bus as B
from txdbus import client as C

BUS_NAME = 'org.freedesktop.DBus'
BUS_PATH = '/org/freedesktop/DBus'


class _Factory:
    def __init__(self, bus):
        self.bus = bus


class BusSide(B.BusProtocol):
    """The real BusProtocol, observing only."""

    def __init__(self):
        self.auth_calls = 0

    def connectionAuthenticated(self):
        self.auth_calls += 1
        B.BusProtocol.connectionAuthenticated(self)


class Net:
    def __init__(self):
        self.bus = B.Bus()
        self.clients = []
        self.arrivals = []        # (client index, parsed message) in the order the bus processed them

    def raw_client(self, mech=b'ANONYMOUS', hello=True, pipelined=None):
        """pipelined: message bytes (a Hello call first) the client sends in the same read as BEGIN."""
        c = RawClient(self, len(self.clients), mech, pipelined=pipelined)
        self.clients.append(c)
        if pipelined is not None:
            self.collect_all()
            for m in c.take():
                if m.mtype == RM.METHOD_RETURN and m.body and isinstance(m.body[0], str) and m.body[0].startswith(':'):
                    c.unique = m.body[0]
                else:
                    c.unread.append(m)
        elif hello:
            c.hello()
        return c

    def real_client(self, unix=False):
        c = RealClient(self, len(self.clients), unix)
        self.clients.append(c)
        return c

    def collect_all(self):
        for c in self.clients:
            c.collect()

    def crashes(self):
        out = []
        for c in self.clients:
            for e in c.server.crashes:
                out.append((c.index, e))
        return out


class RawClient:
    """Scripted client: writes reference-built bytes, parses what the bus sends back."""

    def __init__(self, net, index, mech=b'ANONYMOUS', pipelined=None):
        self.net = net
        self.index = index
        self.proto = BusSide()
        self.proto.factory = _Factory(net.bus)
        self.server = simnet.Endpoint(self.proto, creds=(1000 + index, 0, 0), name='bus-side-%d' % index).connect()
        self.consumed = 0
        self.handshake = b''
        self.bin = b''
        self.inbox = []           # every parsed message received, in order
        self.unread = []          # not yet taken
        self.unique = None
        self.serial = 0
        self.connected = True
        self.raw_log = []
        # handshake
        if mech == b'EXTERNAL':
            self.server.feed(b'\0AUTH EXTERNAL 30\r\n')
            self.server.feed(b'DATA\r\n')
        else:
            self.server.feed(b'\0AUTH ANONYMOUS\r\n')
        out = self.server.t.written()          # BEGIN itself is not answered: what follows is binary
        self.server.feed(b'BEGIN\r\n' + (pipelined or b''))
        self.consumed = len(out)
        self.handshake = out
        self.authenticated = self.proto.auth_calls == 1

    def next_serial(self):
        self.serial += 1
        return self.serial

    def send_raw(self, raw, cuts=None):
        """Deliver bytes to the bus (as one read, or cut)."""
        if cuts:
            for ch in simnet.chunks_of(raw, cuts):
                self.server.feed(ch)
        else:
            self.server.feed(raw)
        self.net.collect_all()

    def call(self, member, sig='', body=(), destination=BUS_NAME, path=BUS_PATH, interface=BUS_NAME, flags=0,
             sender=None, little=True, serial=None, extra=None):
        s = serial if serial is not None else self.next_serial()
        fields = {'path': path, 'member': member}
        if interface:
            fields['interface'] = interface
        if destination:
            fields['destination'] = destination
        if sender:
            fields['sender'] = sender
        if extra:
            fields.update(extra)
        self.send_raw(RM.build(RM.METHOD_CALL, s, fields, sig, list(body), little, flags))
        return s

    def hello(self):
        s = self.call('Hello')
        for m in self.take():
            if m.mtype == RM.METHOD_RETURN and m.fields.get('reply_serial') == s:
                self.unique = m.body[0]
            else:
                self.unread.append(m)
        return self.unique

    def collect(self):
        out = self.server.t.written()
        new = out[self.consumed:]
        self.consumed = len(out)
        if not new:
            return
        self.bin += new
        msgs, self.bin = RM.split_stream(self.bin)
        for raw in msgs:
            try:
                p = RM.parse(raw, strict=True, check_names=False)
                p.malformed = None
            except RM.CodecError as e:
                # keep going with a lenient reading; the check decides what a malformed message means
                try:
                    p = _lenient(raw)
                except Exception:
                    p = RM.Parsed()
                    p.mtype = p.flags = p.serial = None
                    p.signature = ''
                p.malformed = str(e)
            p.raw = raw
            self.inbox.append(p)
            self.unread.append(p)

    def take(self):
        self.collect()
        out, self.unread = self.unread, []
        return out

    def reply_to(self, serial):
        """Pop the reply (return or error) for one of our calls, leaving everything else unread."""
        self.collect()
        for m in list(self.unread):
            if m.mtype in (RM.METHOD_RETURN, RM.ERROR) and m.fields.get('reply_serial') == serial:
                self.unread.remove(m)
                return m
        return None

    def disconnect(self):
        if self.connected:
            self.connected = False
            self.server.lose(Failure(ConnectionDone()))
            self.net.collect_all()

    @property
    def closed_by_bus(self):
        return self.server.t.disconnecting


class RealClient:
    """A real DBusClientConnection joined to a real BusProtocol; the harness moves the bytes."""

    def __init__(self, net, index, unix=False):
        self.net = net
        self.index = index
        self.factory = C.DBusClientFactory()
        self.conn_result = []
        self.factory.getConnection().addCallbacks(lambda c: self.conn_result.append(('ok', c)) or c,
                                                  lambda f: self.conn_result.append(('err', f)) and None)
        self.cproto = C.DBusClientConnection()
        self.cproto.factory = self.factory
        self.client = simnet.Endpoint(self.cproto, unix=unix, name='client-%d' % index)
        self.proto = BusSide()
        self.proto.factory = _Factory(net.bus)
        self.server = simnet.Endpoint(self.proto, creds=(2000 + index, 0, 0), name='bus-side-%d' % index)
        self.c2s = b''        # written by the client, not yet delivered to the bus
        self.s2c = b''
        self._c_seen = 0
        self._s_seen = 0
        self.connected = True
        self.server.connect()
        self.client.connect()

    # bytes written but not yet moved into the queues
    def _harvest(self):
        out = self.client.t.written()
        self.c2s += out[self._c_seen:]
        self._c_seen = len(out)
        out = self.server.t.written()
        self.s2c += out[self._s_seen:]
        self._s_seen = len(out)

    def collect(self):
        self._harvest()

    def pending(self):
        self._harvest()
        return [d for d, q in (('c2s', self.c2s), ('s2c', self.s2c)) if q]

    def deliver(self, direction, n=None):
        """Deliver n (default: all) pending bytes in one read."""
        self._harvest()
        if direction == 'c2s':
            data, self.c2s = (self.c2s, b'') if n is None else (self.c2s[:n], self.c2s[n:])
            if data:
                self.server.feed(data)
        else:
            data, self.s2c = (self.s2c, b'') if n is None else (self.s2c[:n], self.s2c[n:])
            if data:
                self.client.feed(data)
        self.net.collect_all()
        return len(data)

    @property
    def conn(self):
        return self.cproto

    def set_immediate(self):
        """From now on this link behaves like an in-process loop-back pipe: what either end writes is read by the other
        end before write() returns (only switch when nothing is in flight)."""
        self._harvest()
        if self.c2s or self.s2c:
            raise RuntimeError('bytes in flight')

        def c_hook(kind, payload):
            if kind == 'write':
                self._c_seen += len(payload)
                self.server.feed(payload)

        def s_hook(kind, payload):
            if kind == 'write':
                self._s_seen += len(payload)
                self.client.feed(payload)
        self.client.t.on_event = c_hook
        self.server.t.on_event = s_hook

    def disconnect(self):
        if self.connected:
            self.connected = False
            self.server.lose(Failure(ConnectionDone()))
            self.client.lose(Failure(ConnectionDone()))
            self.net.collect_all()


def _lenient(raw):
    """Reading of a message that tolerates wrong header field types."""
    from harness import ref_codec as R
    little = raw[0:1] == b'l'
    (endian, mtype, flags, version, body_len, serial, farr), hend = R.decode('yyyyuua(yv)', raw, 0, little, False)
    p = RM.Parsed()
    p.little, p.mtype, p.flags, p.version, p.body_len, p.serial = little, mtype, flags, version, body_len, serial
    for code, var in farr:
        if code in RM.FIELD_NAME:
            p.fields[RM.FIELD_NAME[code]] = var.value
            p.field_types[RM.FIELD_NAME[code]] = var.sig
    p.signature = p.fields.get('signature', '')
    bstart = hend + (8 - hend % 8) % 8
    if p.signature:
        typed, end = R.decode(p.signature, raw[bstart:], 0, little, False)
        p.body_typed = typed
        p.body = R.plain_list(p.signature, typed)
    return p


def pump(net, rng=None, max_steps=10000, split=False):
    """Deliver pending bytes on all real-client links until quiescent.  rng=None: FIFO over links."""
    steps = 0
    while steps < max_steps:
        choices = []
        for c in net.clients:
            if isinstance(c, RealClient) and c.connected:
                for d in c.pending():
                    choices.append((c, d))
        if not choices:
            return steps
        c, d = rng.choice(choices) if rng else choices[0]
        n = None
        if split and rng and rng.random() < 0.5:
            q = c.c2s if d == 'c2s' else c.s2c
            n = rng.randint(1, len(q))
        c.deliver(d, n)
        steps += 1
    raise RuntimeError('network did not quiesce in %d deliveries' % max_steps)
