"""
Views of txdbus message objects and comparison with expected content (shared by C03/C04/C14).
"""
from harness import ref_codec as R

FIELDS = ['path', 'interface', 'member', 'error_name', 'reply_serial', 'destination', 'sender', 'signature', 'unix_fds']


def tx_view(m):
    """What a parsed/constructed txdbus message object says about itself."""
    v = {'type': getattr(m, '_messageType', None), 'serial': getattr(m, 'serial', None),
         'expectReply': getattr(m, 'expectReply', None), 'autoStart': getattr(m, 'autoStart', None)}
    for f in FIELDS:
        v[f] = getattr(m, f, None)
    v['body'] = getattr(m, 'body', None)
    return v


def same_field(name, got, want):
    if name == 'signature':
        return (got or '') == (want or '')
    if want is None:
        return got is None
    return got == want and (not isinstance(want, str) or isinstance(got, str))


def compare_view(view, exp, body_expect):
    """List of differences between a txdbus view and the expected message content."""
    diffs = []
    for k in ('type', 'serial', 'expectReply', 'autoStart'):
        if k in exp and view[k] != exp[k]:
            diffs.append((k, view[k], exp[k]))
    for f in FIELDS:
        if f == 'unix_fds' and not exp.get(f):
            if view[f] not in (None, 0):
                diffs.append((f, view[f], None))
            continue
        if not same_field(f, view[f], exp.get(f)):
            diffs.append((f, view[f], exp.get(f)))
    got_body = view['body']
    if body_expect:
        if got_body is None or not R.plain_eq(list(got_body), body_expect):
            diffs.append(('body', repr(got_body)[:200], repr(body_expect)[:200]))
    else:
        if got_body:
            diffs.append(('body', repr(got_body)[:200], None))
    return diffs


