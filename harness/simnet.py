"""
Simulated transports and a tiny network: the harness owns *when* and *in what pieces* bytes,
descriptors and closes are delivered.  Reproduces the reactor's rule that an exception escaping
dataReceived loses that connection.
"""
import struct

from twisted.internet import address, interfaces
from twisted.internet.error import ConnectionDone, ConnectionLost
from twisted.python.failure import Failure
from zope.interface import implementer

CLOSE = ('close',)


class FakeSocket:
    def __init__(self, creds):
        self.creds = creds

    def getsockopt(self, level, opt, buflen=None):
        # SO_PEERCRED as the real server-side protocol asks for it
        return struct.pack('3i', *self.creds)


@implementer(interfaces.ITransport)
class SimTransport:
    """Records everything the protocol does to its transport."""
    unix = False

    def __init__(self, creds=(4242, 0, 0), name='t'):
        self.name = name
        self.log = []            # ('write', bytes) | ('fd', obj) | ('close',)
        self.disconnecting = False
        self.disconnected = False
        self.socket = FakeSocket(creds)
        self.on_event = None     # optional callback(kind, payload)
        self.after_close_writes = 0

    # -- ITransport
    def write(self, data):
        if not isinstance(data, (bytes, bytearray)):
            raise TypeError('transport.write needs bytes, got %r' % type(data))
        if self.disconnecting or self.disconnected:
            self.after_close_writes += 1
            self.log.append(('write-after-close', bytes(data)))
            return
        self._ev('write', bytes(data))

    def writeSequence(self, seq):
        self.write(b''.join(seq))

    def loseConnection(self, *a):
        if not self.disconnecting:
            self.disconnecting = True
            self._ev('close', None)

    def abortConnection(self):
        self.loseConnection()

    def getPeer(self):
        return address.UNIXAddress('/sim/peer')

    def getHost(self):
        return address.UNIXAddress('/sim/host')

    def _ev(self, kind, payload):
        self.log.append((kind, payload))
        if self.on_event:
            self.on_event(kind, payload)

    # -- inspection helpers
    def written(self):
        return b''.join(p for k, p in self.log if k == 'write')

    def take(self):
        """Return and forget the events logged so far."""
        ev, self.log = self.log, []
        return ev


@implementer(interfaces.IUNIXTransport)
class _DescriptorPassing:
    """Only UNIX transports can pass descriptors (twisted's TCP transports have no sendFileDescriptor)."""

    def sendFileDescriptor(self, fd):
        self._ev('fd', fd)


class SimUnixTransport(_DescriptorPassing, SimTransport):
    unix = True


class SimWrappedUnixTransport(_DescriptorPassing, SimTransport):
    """A UNIX transport seen through a wrapper (twisted.protocols.policies.ProtocolWrapper and friends forward the real
    transport's interfaces per INSTANCE, with directlyProvides): the class itself declares nothing."""
    unix = True

    def __init__(self, *a, **kw):
        SimTransport.__init__(self, *a, **kw)
        from zope.interface import alsoProvides
        alsoProvides(self, interfaces.IUNIXTransport)


_unix_endpoints = [0]
_tcp_endpoints = [0]


class Endpoint:
    """A protocol attached to a SimTransport, with reactor-like delivery rules."""

    def __init__(self, proto, transport=None, unix=False, creds=(4242, 0, 0), name='ep'):
        self.proto = proto
        if transport is None and unix:
            # every other UNIX endpoint is a wrapped one
            _unix_endpoints[0] += 1
            transport = (SimWrappedUnixTransport if _unix_endpoints[0] % 2 == 0 else SimUnixTransport)(creds, name)
        if transport is None:
            transport = SimTransport(creds, name)
            _tcp_endpoints[0] += 1
            if _tcp_endpoints[0] % 2 == 0:
                # every other non-UNIX endpoint says what twisted's TCP transports say about themselves
                from zope.interface import alsoProvides
                alsoProvides(transport, interfaces.ITCPTransport)
        self.t = transport
        self.crashes = []        # exceptions that escaped dataReceived
        self.lost = 0
        self.name = name
        self.connected = False

    def connect(self):
        self.proto.makeConnection(self.t)
        self.connected = True
        return self

    def feed(self, data):
        """Deliver one read.  Returns False if the connection is (now) gone."""
        if self.lost:
            return False
        try:
            self.proto.dataReceived(data)
        except BaseException as e:      # reactor (posixbase._doReadOrWrite): log, then drop this connection
            if isinstance(e, (KeyboardInterrupt, SystemExit)):
                raise
            self.crashes.append(e)
            self.lose(Failure(e))
            return False
        return True

    def feed_fd(self, fd):
        if self.lost:
            return False
        try:
            self.proto.fileDescriptorReceived(fd)
        except Exception as e:
            self.crashes.append(e)
            self.lose(Failure(e))
            return False
        return True

    def lose(self, reason=None):
        if self.lost:
            return
        self.lost += 1
        self.t.disconnected = True
        if reason is None:
            reason = Failure(ConnectionDone())
        try:
            self.proto.connectionLost(reason)
        except Exception as e:
            self.crashes.append(e)


def chunks_of(data, cuts):
    """Split data at the given sorted cut positions."""
    out = []
    prev = 0
    for c in cuts:
        out.append(data[prev:c])
        prev = c
    out.append(data[prev:])
    return out


def random_partition(rng, n, mean):
    """Sorted cut positions of a stream of n bytes with geometric chunk sizes."""
    cuts = []
    pos = 0
    while True:
        step = max(1, int(rng.expovariate(1.0 / mean)))
        pos += step
        if pos >= n:
            return cuts
        cuts.append(pos)
