"""
Validation of the trusted base before it is believed: hand-computed byte vectors from the
DBus specification's marshalling rules for the reference codec, and known answers for the
reference grammar.  A failure here makes the calling check INCONCLUSIVE (harness defect),
never a violation.
"""
from harness import ref_codec as R
from harness import ref_grammar as G
from harness.env import Inconclusive

H = bytes.fromhex

VECTORS = [
    # sig, typed values, little, offset, bytes (including leading padding)
    ('u', [1], True, 0, H('01000000')),
    ('u', [1], False, 0, H('00000001')),
    ('s', ['foo'], True, 0, H('03000000666f6f00')),
    ('ai', [[1, 2]], True, 0, H('080000000100000002000000')),
    ('ax', [[5]], True, 0, H('08000000' '00000000' '0500000000000000')),
    ('ax', [[]], True, 0, H('00000000' '00000000')),
    ('ax', [[]], True, 4, H('00000000')),
    ('yx', [1, 2], True, 0, H('01' '00000000000000' '0200000000000000')),
    ('v', [R.Variant('i', 5)], True, 0, H('016900' '00' '05000000')),
    ('(yi)', [[1, 5]], True, 0, H('01000000' '05000000')),
    ('y(yi)', [7, [1, 5]], True, 0, H('07' '00000000000000' '01000000' '05000000')),
    ('a{ys}', [[(1, 'a')]], True, 0, H('0a000000' '00000000' '01000000' '01000000' '6100')),
    ('g', ['ai'], True, 0, H('02616900')),
    ('b', [True], False, 0, H('00000001')),
    ('d', [1.0], True, 0, H('000000000000f03f')),
    ('n', [-2], False, 1, H('00' 'fffe')),
    ('ay', [[1, 2, 3]], False, 0, H('00000003' '010203')),
    ('as', [['a', 'bc']], True, 0, H('0f000000' '01000000' '6100' '0000' '02000000' '626300')),
    ('o', ['/a'], True, 2, H('0000' '02000000' '2f6100')),
    ('a(yy)', [[[1, 2], [3, 4]]], True, 0, H('0a000000' '00000000' '0102' '000000000000' '0304')),
    ('t', [2**64 - 1], False, 0, H('ffffffffffffffff')),
    ('h', [3], True, 0, H('03000000')),
    ('yv', [9, R.Variant('x', 1)], True, 0, H('09' '017800' '00000000' '0100000000000000')),
]


def check_codec():
    for sig, vals, le, off, expect in VECTORS:
        got = R.encode(sig, vals, off, le)
        if got != expect:
            raise Inconclusive('reference codec self-check failed on encode %r: %s != %s' % (
                sig, got.hex(), expect.hex()))
        dec, end = R.decode(sig, b'\xEE' * off + expect, off, le)
        if not R.plain_eq(dec, vals) or end != off + len(expect):
            raise Inconclusive('reference codec self-check failed on decode %r: %r' % (sig, dec))
    # strictness
    bad = [('y' + 'x', H('01' 'ff000000000000' '0200000000000000')),     # non-zero padding
           ('b', H('02000000')),                                             # boolean 2
           ('s', H('03000000666f6f01')),                                     # missing NUL
           ('ai', H('05000000' '0100000002000000')),                         # length not multiple
           ('v', H('0269690005000000'))]                                     # variant with 2 types
    for sig, data in bad:
        try:
            R.decode(sig, data, 0, True)
        except R.CodecError:
            continue
        raise Inconclusive('reference decoder accepted malformed %r' % sig)
    return len(VECTORS) + len(bad)


def check_grammar():
    yes = ['', 'i', 'ai', 'a{sv}', '(ii)', 'a(ss)', 'aaay', '(i(ii))', 'a{s(iv)}', 'v', 'a' * 32 + 'y',
           '(' * 32 + 'y' + ')' * 32, 'y' * 255]
    no = ['a', '(', ')', '()', '{ss}', 'a{vs}', 'a{s}', 'a{sss}', 'z', '(i', 'i)', 'a{(i)s}', 'a' * 33 + 'y',
          '(' * 33 + 'y' + ')' * 33, 'y' * 256, 'a{}', 'a()']
    for s in yes:
        if not G.valid_signature(s):
            raise Inconclusive('reference grammar rejects valid signature %r' % s)
    for s in no:
        if G.valid_signature(s):
            raise Inconclusive('reference grammar accepts invalid signature %r' % s)
    if G.split_signature('i(i(ii))ai') != ['i', '(i(ii))', 'ai']:
        raise Inconclusive('reference splitter wrong')
    names = [('interface', 'a.b', True), ('interface', 'a', False), ('interface', 'a.b.', False),
             ('interface', 'a.1b', False), ('interface', 'a-b.c', False), ('bus', 'a-b.c', True),
             ('bus', ':1.2', True), ('bus', '1.2', False), ('bus', ':a', False), ('bus', 'a.b:c', False),
             ('member', 'A_1', True), ('member', '1A', False), ('member', 'a.b', False), ('member', '', False),
             ('object_path', '/', True), ('object_path', '/a/b_1', True), ('object_path', '/a/', False),
             ('object_path', '//', False), ('object_path', 'a', False), ('object_path', '/a-b', False),
             ('interface', 'a.' + 'b' * 253, True), ('interface', 'a.' + 'b' * 254, False)]
    for kind, s, want in names:
        if G.VALIDATORS[kind](s) != want:
            raise Inconclusive('reference grammar wrong on %s %r' % (kind, s))
    return len(yes) + len(no) + len(names)
