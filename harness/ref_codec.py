"""
Reference DBus wire codec, written from the specification; shares no code with txdbus.

Typed tree:
  basic            -> int / bool / float / str
  'h'              -> int (index into the out-of-band descriptor list)
  array aT         -> list of typed values
  dict  a{KT}      -> list of (key, value) pairs, in wire order
  struct (...)     -> list of field values
  variant          -> Variant(sig, typed value)

encode()/decode() are strict: decode validates alignment padding is zero, NUL
terminators, UTF-8, boolean in {0,1}, array length accounting and limits, variant
signatures being one single complete type, object-path / signature syntax.
"""
import struct

from harness import ref_grammar as G


class CodecError(Exception):
    pass


class Variant:
    __slots__ = ('sig', 'value')

    def __init__(self, sig, value):
        self.sig = sig
        self.value = value

    def __repr__(self):
        return 'Variant(%r, %r)' % (self.sig, self.value)

    def __eq__(self, o):
        return isinstance(o, Variant) and o.sig == self.sig and typed_eq(o.value, self.value)

    def __hash__(self):
        return hash(self.sig)


_FMT = {'y': 'B', 'n': 'h', 'q': 'H', 'i': 'i', 'u': 'I', 'x': 'q', 't': 'Q', 'd': 'd', 'h': 'I', 'b': 'I'}
_RANGE = {'y': (0, 255), 'n': (-2**15, 2**15 - 1), 'q': (0, 2**16 - 1), 'i': (-2**31, 2**31 - 1),
          'u': (0, 2**32 - 1), 'x': (-2**63, 2**63 - 1), 't': (0, 2**64 - 1), 'h': (0, 2**32 - 1)}

MAX_ARRAY = 2**26


def _pad(offset, align):
    r = offset % align
    return 0 if r == 0 else align - r


# --------------------------------------------------------------------------- encode

def encode(sig, values, offset=0, little=True):
    """Encode `values` (typed trees, one per complete type of sig) starting at absolute
    stream offset `offset`.  Returns the bytes *including* the padding in front of the
    first value (this is also what txdbus.marshal.marshal returns)."""
    out = bytearray()
    types = G.split_signature(sig)
    if len(types) != len(values):
        raise CodecError('arity')
    for ct, v in zip(types, values):
        _enc(ct, v, offset, little, out)
    return bytes(out)


def _enc(ct, v, base, little, out):
    """append encoding of v; absolute position of out[0] is `base`."""
    e = '<' if little else '>'
    c = ct[0]
    pos = base + len(out)
    out.extend(b'\0' * _pad(pos, G.ALIGN[c]))
    if c in _FMT:
        if c == 'b':
            out.extend(struct.pack(e + 'I', 1 if v else 0))
        elif c == 'd':
            out.extend(struct.pack(e + 'd', v))
        else:
            lo, hi = _RANGE[c]
            if not (lo <= v <= hi):
                raise CodecError('out of range')
            out.extend(struct.pack(e + _FMT[c], v))
    elif c in 'so':
        b = v.encode('utf-8')
        out.extend(struct.pack(e + 'I', len(b)))
        out.extend(b)
        out.append(0)
    elif c == 'g':
        b = v.encode('ascii')
        out.append(len(b))
        out.extend(b)
        out.append(0)
    elif c == 'a':
        et = ct[1:]
        lenpos = len(out)
        out.extend(b'\0\0\0\0')
        pos = base + len(out)
        out.extend(b'\0' * _pad(pos, G.ALIGN[et[0]]))
        start = len(out)
        if et[0] == '{':
            kt, vt = G.struct_fields(et)
            for k, val in v:
                pos = base + len(out)
                out.extend(b'\0' * _pad(pos, 8))
                _enc(kt, k, base, little, out)
                _enc(vt, val, base, little, out)
        else:
            for item in v:
                _enc(et, item, base, little, out)
        n = len(out) - start
        out[lenpos:lenpos + 4] = struct.pack(e + 'I', n)
    elif c == '(':
        fields = G.struct_fields(ct)
        if len(fields) != len(v):
            raise CodecError('struct arity')
        for ft, fv in zip(fields, v):
            _enc(ft, fv, base, little, out)
    elif c == 'v':
        _enc('g', v.sig, base, little, out)
        _enc(v.sig, v.value, base, little, out)
    else:
        raise CodecError('bad type ' + ct)


# --------------------------------------------------------------------------- decode

def decode(sig, data, offset=0, little=True, strict=True):
    """Decode one value per complete type of sig from data starting at absolute offset
    `offset` (data[0] is stream position 0).  Returns (typed values, end offset)."""
    vals = []
    for ct in G.split_signature(sig):
        v, offset = _dec(ct, data, offset, little, strict, 0)
        vals.append(v)
    return vals, offset


def _need(data, pos, n):
    if pos + n > len(data):
        raise CodecError('truncated')


def _skip_pad(data, pos, align, strict):
    n = _pad(pos, align)
    _need(data, pos, n)
    if strict and any(data[pos:pos + n]):
        raise CodecError('non-zero padding at %d' % pos)
    return pos + n


def _dec(ct, data, pos, little, strict, depth):
    if depth > 64:
        raise CodecError('nesting')
    e = '<' if little else '>'
    c = ct[0]
    pos = _skip_pad(data, pos, G.ALIGN[c], strict)
    if c in _FMT:
        size = struct.calcsize(_FMT[c])
        _need(data, pos, size)
        v = struct.unpack_from(e + _FMT[c], data, pos)[0]
        if c == 'b':
            if strict and v not in (0, 1):
                raise CodecError('boolean %d' % v)
            v = bool(v)
        return v, pos + size
    if c in 'so':
        _need(data, pos, 4)
        n = struct.unpack_from(e + 'I', data, pos)[0]
        pos += 4
        _need(data, pos, n + 1)
        raw = bytes(data[pos:pos + n])
        if data[pos + n] != 0:
            raise CodecError('string not NUL-terminated')
        if b'\0' in raw:
            raise CodecError('embedded NUL')
        try:
            s = raw.decode('utf-8')
        except UnicodeDecodeError:
            raise CodecError('invalid UTF-8')
        if c == 'o' and strict and not G.valid_object_path(s):
            raise CodecError('invalid object path %r' % s)
        return s, pos + n + 1
    if c == 'g':
        _need(data, pos, 1)
        n = data[pos]
        pos += 1
        _need(data, pos, n + 1)
        raw = bytes(data[pos:pos + n])
        if data[pos + n] != 0:
            raise CodecError('signature not NUL-terminated')
        try:
            s = raw.decode('ascii')
        except UnicodeDecodeError:
            raise CodecError('non-ASCII signature')
        if strict and not G.valid_signature(s):
            raise CodecError('invalid signature %r' % s)
        return s, pos + n + 1
    if c == 'a':
        et = ct[1:]
        _need(data, pos, 4)
        n = struct.unpack_from(e + 'I', data, pos)[0]
        pos += 4
        if n > MAX_ARRAY:
            raise CodecError('array too long')
        pos = _skip_pad(data, pos, G.ALIGN[et[0]], strict)
        end = pos + n
        _need(data, pos, n)
        items = []
        while pos < end:
            if et[0] == '{':
                kt, vt = G.struct_fields(et)
                pos = _skip_pad(data, pos, 8, strict)
                k, pos = _dec(kt, data, pos, little, strict, depth + 1)
                v, pos = _dec(vt, data, pos, little, strict, depth + 1)
                items.append((k, v))
            else:
                v, pos = _dec(et, data, pos, little, strict, depth + 1)
                items.append(v)
        if pos != end:
            raise CodecError('array length does not match its elements')
        return items, pos
    if c == '(':
        vals = []
        for ft in G.struct_fields(ct):
            v, pos = _dec(ft, data, pos, little, strict, depth + 1)
            vals.append(v)
        return vals, pos
    if c == 'v':
        s, pos = _dec('g', data, pos, little, strict, depth)
        if not G.is_single_complete_type(s):
            raise CodecError('variant signature %r is not a single complete type' % s)
        v, pos = _dec(s, data, pos, little, strict, depth + 1)
        return Variant(s, v), pos
    raise CodecError('bad type ' + ct)


# --------------------------------------------------------------------------- helpers

def to_plain(ct, v):
    """What a DBus binding hands to the application (and what txdbus.unmarshal returns):
    variants unwrapped, dict-entry arrays as dict, structs/arrays as lists."""
    c = ct[0]
    if c == 'a':
        et = ct[1:]
        if et[0] == '{':
            kt, vt = G.struct_fields(et)
            return {to_plain(kt, k): to_plain(vt, val) for k, val in v}
        return [to_plain(et, x) for x in v]
    if c == '(':
        return [to_plain(ft, fv) for ft, fv in zip(G.struct_fields(ct), v)]
    if c == 'v':
        return to_plain(v.sig, v.value)
    return v


def plain_list(sig, values):
    return [to_plain(ct, v) for ct, v in zip(G.split_signature(sig), values)]


def typed_eq(a, b):
    return plain_eq(a, b)


def plain_eq(a, b):
    """Python equality, NaN-aware and recursive; float compared by value (nan == nan)."""
    if isinstance(a, Variant) or isinstance(b, Variant):
        return (isinstance(a, Variant) and isinstance(b, Variant) and a.sig == b.sig
                and plain_eq(a.value, b.value))
    if isinstance(a, float) and isinstance(b, float):
        return a == b or (a != a and b != b)
    if isinstance(a, (list, tuple)) and isinstance(b, (list, tuple)):
        return len(a) == len(b) and all(plain_eq(x, y) for x, y in zip(a, b))
    if isinstance(a, dict) and isinstance(b, dict):
        if len(a) != len(b):
            return False
        for k, v in a.items():
            if k in b:
                if not plain_eq(v, b[k]):
                    return False
            else:
                # NaN keys etc.
                found = False
                for k2, v2 in b.items():
                    if plain_eq(k, k2) and plain_eq(v, v2):
                        found = True
                        break
                if not found:
                    return False
        return True
    if isinstance(a, (list, tuple, dict)) != isinstance(b, (list, tuple, dict)):
        return False
    return a == b


def strict_type_eq(a, b):
    """plain_eq plus: bool only equals bool, float bit pattern equal (distinguishes -0.0)."""
    if isinstance(a, bool) != isinstance(b, bool):
        return False
    if isinstance(a, float) and isinstance(b, float):
        return struct.pack('<d', a) == struct.pack('<d', b) or (a != a and b != b)
    if isinstance(a, (list, tuple)) and isinstance(b, (list, tuple)):
        return len(a) == len(b) and all(strict_type_eq(x, y) for x, y in zip(a, b))
    if isinstance(a, dict) and isinstance(b, dict):
        if len(a) != len(b):
            return False
        for k, v in a.items():
            if k not in b or not strict_type_eq(v, b[k]):
                return False
        return True
    return plain_eq(a, b)
