"""
Environment substitution for the authentication checks: a throw-away home directory with a
DBus keyring for a fake passwd entry (DBUS_COOKIE_SHA1 reads ~user/.dbus-keyrings on the server
side and ~/.dbus-keyrings via $HOME on the client side), and helpers computing the spec's
cookie responses.  Only the environment is replaced; the subject's code runs unmodified.
"""
import binascii
import hashlib
import os
import pwd
import shutil
import tempfile
import collections

USER = 'vuser'
USER2 = 'valice'         # another user of the machine: her home is NOT the bus process's $HOME
_Pw = collections.namedtuple('_Pw', 'pw_name pw_passwd pw_uid pw_gid pw_gecos pw_dir pw_shell')


class AuthEnv:
    def __init__(self):
        self.home = None
        self._orig_getpwnam = None
        self._orig_home = None

    def __enter__(self):
        self.home = tempfile.mkdtemp(prefix='txdbus-verif-home-')
        self.home2 = tempfile.mkdtemp(prefix='txdbus-verif-home2-')
        self._orig_getpwnam = pwd.getpwnam
        self._orig_home = os.environ.get('HOME')
        env = self

        def getpwnam(name):
            if name == USER:
                return _Pw(USER, 'x', os.geteuid(), os.getegid(), '', env.home, '/bin/sh')
            if name == USER2:
                return _Pw(USER2, 'x', os.geteuid(), os.getegid(), '', env.home2, '/bin/sh')
            return env._orig_getpwnam(name)
        pwd.getpwnam = getpwnam
        os.environ['HOME'] = self.home
        import getpass
        self._orig_getuser = getpass.getuser
        getpass.getuser = lambda: USER
        return self

    def __exit__(self, *a):
        import getpass
        pwd.getpwnam = self._orig_getpwnam
        getpass.getuser = self._orig_getuser
        if self._orig_home is None:
            os.environ.pop('HOME', None)
        else:
            os.environ['HOME'] = self._orig_home
        shutil.rmtree(self.home, ignore_errors=True)
        shutil.rmtree(self.home2, ignore_errors=True)

    @property
    def keyring(self):
        return os.path.join(self.home, '.dbus-keyrings')

    def stale_files(self):
        """Lock files left behind in the keyring (a cookie-lifecycle defect indicator)."""
        try:
            return [f for f in os.listdir(self.keyring) if f.endswith('.lock')]
        except OSError:
            return []

    def read_cookie(self, context, cookie_id, home=None):
        path = os.path.join(os.path.join(home, '.dbus-keyrings') if home else self.keyring,
                            context.decode('ascii') if isinstance(context, bytes) else context)
        with open(path, 'rb') as f:
            for line in f:
                parts = line.split()
                if len(parts) == 3 and parts[0] == cookie_id:
                    return parts[2]
        return None

    def write_cookie(self, context, cookie_id, cookie_hex):
        os.makedirs(self.keyring, mode=0o700, exist_ok=True)
        os.chmod(self.keyring, 0o700)
        import time
        with open(os.path.join(self.keyring, context), 'wb') as f:
            f.write(b'%s %d %s\n' % (cookie_id, int(time.time()), cookie_hex))


# the client's own challenge is an opaque token without white space: libdbus sends lower-case hex, others need not
CLIENT_CHALLENGES = [b'c0ffee', b'C0FFEE', b'0123AbCdEf', b'Zm9vYmFy+/8=', b'c0ffee']


def cookie_response(server_challenge, cookie, client_challenge=None):
    """DATA argument (before hex encoding) a conforming client sends."""
    if client_challenge is None:
        client_challenge = CLIENT_CHALLENGES[sum(server_challenge) % len(CLIENT_CHALLENGES)]
    digest = hashlib.sha1(server_challenge + b':' + client_challenge + b':' + cookie).hexdigest().encode('ascii')
    return client_challenge + b' ' + digest


def hexs(b):
    return binascii.hexlify(b)
