"""
Reference evaluation of DBus match rules, written from the "Match Rules" section of the
specification, restricted to the keys the property names: type, interface, member, path,
path_namespace, destination, argN, argNpath.  Plus a parser for rule *text* with the
specification's quoting.
"""

TYPE_NAMES = {'method_call': 1, 'method_return': 2, 'error': 3, 'signal': 4}


def path_in_namespace(path, ns):
    if path is None:
        return False
    if ns == '/':
        return path.startswith('/')
    return path == ns or path.startswith(ns + '/')


def arg_path_matches(arg, value):
    if not isinstance(arg, str):
        return False
    if arg == value:
        return True
    if value.endswith('/') and arg.startswith(value):
        return True
    if arg.endswith('/') and value.startswith(arg):
        return True
    return False


def matches(rule, msg):
    """rule: dict with optional keys type, interface, member, path, path_namespace, destination,
    args {idx: value}, arg_paths {idx: value}.  msg: dict type(int), interface, member, path,
    destination, body(list)."""
    t = rule.get('type')
    if t is not None and TYPE_NAMES[t] != msg['type']:
        return False
    for k in ('interface', 'member', 'path', 'destination'):
        v = rule.get(k)
        if v is not None and msg.get(k) != v:
            return False
    ns = rule.get('path_namespace')
    if ns is not None and not path_in_namespace(msg.get('path'), ns):
        return False
    body = msg.get('body') or []
    for idx, val in (rule.get('args') or {}).items():
        if idx >= len(body) or not isinstance(body[idx], str) or body[idx] != val:
            return False
    for idx, val in (rule.get('arg_paths') or {}).items():
        if idx >= len(body) or not arg_path_matches(body[idx], val):
            return False
    return True


def disagreeing_keys(rule, msg):
    """The constraints of `rule` that `msg` does not satisfy."""
    bad = []
    for k in ('type', 'interface', 'member', 'path', 'destination', 'path_namespace'):
        if rule.get(k) is not None and not matches({k: rule[k]}, msg):
            bad.append(k)
    for idx, val in (rule.get('args') or {}).items():
        if not matches({'args': {idx: val}}, msg):
            bad.append('arg%d' % idx)
    for idx, val in (rule.get('arg_paths') or {}).items():
        if not matches({'arg_paths': {idx: val}}, msg):
            bad.append('arg%dpath' % idx)
    return bad


class RuleSyntaxError(Exception):
    pass


def parse_rule_text(text):
    """Parse "key='value',key='va'\\''lue'" per the specification.  Returns dict key -> value."""
    out = {}
    i = 0
    n = len(text)
    while i < n:
        j = text.find('=', i)
        if j < 0:
            raise RuleSyntaxError('missing = after %d' % i)
        key = text[i:j].strip()
        i = j + 1
        val = []
        # value: sequence of quoted / unquoted pieces until an unquoted comma
        while i < n and text[i] != ',':
            c = text[i]
            if c == "'":
                k = text.find("'", i + 1)
                if k < 0:
                    raise RuleSyntaxError('unterminated quote')
                val.append(text[i + 1:k])
                i = k + 1
            elif c == '\\' and i + 1 < n and text[i + 1] == "'":
                val.append("'")
                i += 2
            else:
                val.append(c)
                i += 1
        if key in out:
            raise RuleSyntaxError('duplicate key ' + key)
        out[key] = ''.join(val)
        if i < n and text[i] == ',':
            i += 1
    return out


def rule_from_text(text):
    """Rule dict (as used by matches()) from rule text."""
    kv = parse_rule_text(text)
    rule = {}
    for k, v in kv.items():
        if k in ('type', 'interface', 'member', 'path', 'path_namespace', 'destination', 'sender', 'arg0namespace',
                 'eavesdrop'):
            rule[k] = v
        elif k.startswith('arg') and k.endswith('path'):
            rule.setdefault('arg_paths', {})[int(k[3:-4])] = v
        elif k.startswith('arg'):
            rule.setdefault('args', {})[int(k[3:])] = v
        else:
            raise RuleSyntaxError('unknown key ' + k)
    return rule
