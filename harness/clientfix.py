"""
A real DBusClientConnection attached to a simulated transport whose peer is the checker:
real handshake, Hello answered by reference-built bytes, virtual time for call deadlines.
"""
from twisted.internet import task

from harness import ref_message as RM
from harness import simnet
from txdbus import client as C

GUID = b'0123456789abcdef0123456789abcdef'
UNIQUE = ':1.42'


def install_clock():
    """Virtual time: txdbus.client uses the module-level reactor only for callLater."""
    clock = task.Clock()
    C.reactor = clock
    return clock


class MalformedOutput(Exception):
    def __init__(self, raw, error):
        Exception.__init__(self, 'the connection wrote bytes that are not a well-formed DBus message: %s' % (error,))
        self.raw = raw
        self.error = error


class Peer:
    """The checker's side of the connection: reads what the client wrote, injects bytes."""

    def __init__(self, unix=False, proto_cls=None):
        self.factory = C.DBusClientFactory()
        self.connect_results = []      # ('ok', conn) | ('err', failure)
        self.factory.getConnection().addCallbacks(
            lambda c: self.connect_results.append(('ok', c)) or c,
            lambda f: self.connect_results.append(('err', f)) and None)
        self.proto = (proto_cls or C.DBusClientConnection)()
        self.proto.factory = self.factory
        self.ep = simnet.Endpoint(self.proto, unix=unix, name='client')
        self.consumed = 0
        self.binary = b''
        self.begun = False
        self.handshake_lines = []
        self.inbox = []          # parsed messages (RM.Parsed) written by the client, in order
        self.fd_log = []         # (index of the message the descriptors precede, fd)
        self._pending_fds = []
        self.unix = unix

    # ---- handshake
    def connect(self):
        self.ep.connect()
        return self

    def authenticate(self):
        self.ep.feed(b'OK ' + GUID + b'\r\n')
        if self.unix:
            self.ep.feed(b'AGREE_UNIX_FD\r\n')
        self.pump()
        return self

    def hello(self, name=UNIQUE):
        """Answer the Hello call the client sends right after authentication."""
        self.pump()
        for m in self.inbox:
            if m.fields.get('member') == 'Hello':
                self.send(RM.build(RM.METHOD_RETURN, 1, {'reply_serial': m.serial, 'sender': 'org.freedesktop.DBus',
                                                        'destination': name}, 's', [name]))
                self.inbox.remove(m)
                return m
        raise RuntimeError('client did not send Hello')

    def ready(self, name=UNIQUE):
        self.connect()
        self.authenticate()
        self.hello(name)
        return self

    # ---- reading what the client wrote
    def pump(self):
        """Parse new transport events into self.inbox."""
        for kind, payload in self.ep.t.take():
            if kind == 'write':
                if not self.begun:
                    data = payload
                    if b'BEGIN\r\n' in data:
                        head, tail = data.split(b'BEGIN\r\n', 1)
                        self.handshake_lines.append(head + b'BEGIN')
                        self.begun = True
                        self.binary += tail
                    else:
                        self.handshake_lines.append(data)
                else:
                    self.binary += payload
                    msgs, self.binary = RM.split_stream(self.binary)
                    for raw in msgs:
                        try:
                            p = RM.parse(raw, strict=True)
                        except Exception as e:
                            # the connection under test wrote bytes that are not a well-formed message: whatever the
                            # property at hand, that is a refuting observation, not a harness problem
                            raise MalformedOutput(raw, e)
                        p.raw = raw
                        p.fds = self._pending_fds
                        self._pending_fds = []
                        self.inbox.append(p)
            elif kind == 'fd':
                self._pending_fds.append(payload)
            elif kind == 'close':
                pass
        return self.inbox

    def take(self):
        self.pump()
        out, self.inbox = self.inbox, []
        return out

    # ---- injecting
    def send(self, raw, cuts=None):
        if cuts:
            for ch in simnet.chunks_of(raw, cuts):
                self.ep.feed(ch)
        else:
            self.ep.feed(raw)

    def lose(self, reason=None):
        self.ep.lose(reason)


class Outcome:
    """Counting callback/errback pair attached to a Deferred: double and missing firings are visible."""

    def __init__(self, d=None, label=None):
        self.results = []     # ('ok', value) | ('err', failure)
        self.label = label
        if d is not None:
            self.attach(d)

    def attach(self, d):
        d.addCallbacks(self._ok, self._err)
        return self

    def _ok(self, v):
        self.results.append(('ok', v))
        return None

    def _err(self, f):
        self.results.append(('err', f))
        return None

    @property
    def fired(self):
        return len(self.results)
