"""
Reference DBus message builder / parser (on top of ref_codec), written from the
specification.  Used as the "other implementation" and as the strict wire oracle.
"""
import struct

from harness import ref_codec as R
from harness import ref_grammar as G
from harness.ref_codec import Variant, CodecError

METHOD_CALL, METHOD_RETURN, ERROR, SIGNAL = 1, 2, 3, 4
TYPE_NAMES = {1: 'method_call', 2: 'method_return', 3: 'error', 4: 'signal'}

PATH, INTERFACE, MEMBER, ERROR_NAME, REPLY_SERIAL, DESTINATION, SENDER, SIGNATURE, UNIX_FDS = range(1, 10)
FIELD_NAME = {1: 'path', 2: 'interface', 3: 'member', 4: 'error_name', 5: 'reply_serial', 6: 'destination',
              7: 'sender', 8: 'signature', 9: 'unix_fds'}
FIELD_CODE = {v: k for k, v in FIELD_NAME.items()}
FIELD_TYPE = {1: 'o', 2: 's', 3: 's', 4: 's', 5: 'u', 6: 's', 7: 's', 8: 'g', 9: 'u'}
REQUIRED = {1: {PATH, MEMBER}, 2: {REPLY_SERIAL}, 3: {ERROR_NAME, REPLY_SERIAL}, 4: {PATH, INTERFACE, MEMBER}}

NO_REPLY_EXPECTED = 0x1
NO_AUTO_START = 0x2

MAX_MESSAGE = 2**27


def build(mtype, serial, fields, body_sig='', body=(), little=True, flags=0, version=1,
          extra_fields=(), field_order=None):
    """
    fields: dict name -> plain value (typed per FIELD_TYPE); the signature field is added from
    body_sig when body_sig is non-empty.  extra_fields: [(code, Variant)] with unknown codes.
    field_order: optional permutation function over the list of (code, Variant).
    """
    fl = []
    for name, val in fields.items():
        code = FIELD_CODE[name]
        fl.append((code, Variant(FIELD_TYPE[code], val)))
    if body_sig:
        fl.append((SIGNATURE, Variant('g', body_sig)))
    fl.extend(extra_fields)
    if field_order:
        fl = field_order(fl)
    body_bytes = R.encode(body_sig, list(body), 0, little) if body_sig else b''
    hdr = R.encode('yyyyuua(yv)', [ord('l') if little else ord('B'), mtype, flags, version, len(body_bytes),
                                   serial, [[c, v] for c, v in fl]], 0, little)
    pad = b'\0' * ((8 - len(hdr) % 8) % 8)
    return hdr + pad + body_bytes


def frame_length(data):
    """Total length of the message starting at data[0] (needs >= 16 bytes), per the fixed header."""
    if len(data) < 16:
        return None
    e = '<' if data[0:1] == b'l' else '>'
    body_len = struct.unpack(e + 'I', data[4:8])[0]
    harr = struct.unpack(e + 'I', data[12:16])[0]
    h = 16 + harr
    return h + (8 - h % 8) % 8 + body_len


class Parsed:
    def __init__(self):
        self.fields = {}
        self.field_types = {}
        self.unknown = []
        self.body = []
        self.body_typed = []

    def __repr__(self):
        return 'Parsed(type=%s serial=%s flags=%s fields=%r body=%r)' % (
            self.mtype, self.serial, self.flags, self.fields, self.body)

    def key(self):
        return (self.mtype, self.serial, self.flags, tuple(sorted(self.fields.items())), repr(self.body))


def parse(data, strict=True, check_names=True):
    """Strictly parse one complete message; raises CodecError if it is not well-formed."""
    if len(data) < 16:
        raise CodecError('shorter than the fixed header')
    if data[0:1] == b'l':
        little = True
    elif data[0:1] == b'B':
        little = False
    else:
        raise CodecError('bad endian byte %r' % data[0:1])
    (endian, mtype, flags, version, body_len, serial, farr), hend = R.decode('yyyyuua(yv)', data, 0, little, strict)
    p = Parsed()
    p.little = little
    p.mtype = mtype
    p.flags = flags
    p.version = version
    p.body_len = body_len
    p.serial = serial
    if strict:
        if mtype not in TYPE_NAMES:
            raise CodecError('unknown message type %d' % mtype)
        if version != 1:
            raise CodecError('protocol version %d' % version)
        if serial == 0:
            raise CodecError('serial 0')
    pad = (8 - hend % 8) % 8
    if len(data) < hend + pad:
        raise CodecError('truncated header padding')
    if strict and any(data[hend:hend + pad]):
        raise CodecError('non-zero header padding')
    bstart = hend + pad
    if len(data) != bstart + body_len:
        raise CodecError('declared body length %d but %d bytes follow the header' % (body_len, len(data) - bstart))
    if len(data) > MAX_MESSAGE:
        raise CodecError('message longer than 2**27')
    for code, var in farr:
        if code in FIELD_NAME:
            if var.sig != FIELD_TYPE[code]:
                raise CodecError('header field %s has type %r, must be %r' % (FIELD_NAME[code], var.sig, FIELD_TYPE[code]))
            if FIELD_NAME[code] in p.fields:
                raise CodecError('duplicate header field %s' % FIELD_NAME[code])
            p.fields[FIELD_NAME[code]] = var.value
            p.field_types[FIELD_NAME[code]] = var.sig
        else:
            if code == 0:
                raise CodecError('header field code 0')
            p.unknown.append((code, var))
    if strict:
        missing = REQUIRED.get(mtype, set()) - {FIELD_CODE[n] for n in p.fields}
        if missing:
            raise CodecError('required header fields missing: %s' % sorted(FIELD_NAME[c] for c in missing))
        if check_names:
            f = p.fields
            if 'interface' in f and not G.valid_interface_name(f['interface']):
                raise CodecError('invalid interface name %r' % f['interface'])
            if 'member' in f and not G.valid_member_name(f['member']):
                raise CodecError('invalid member name %r' % f['member'])
            if 'error_name' in f and not G.valid_error_name(f['error_name']):
                raise CodecError('invalid error name %r' % f['error_name'])
            if 'destination' in f and not G.valid_bus_name(f['destination']):
                raise CodecError('invalid destination %r' % f['destination'])
            if 'sender' in f and not G.valid_bus_name(f['sender']):
                raise CodecError('invalid sender %r' % f['sender'])
    sig = p.fields.get('signature', '')
    p.signature = sig
    body = data[bstart:]
    if sig:
        typed, end = R.decode(sig, body, 0, little, strict)
        if end != len(body):
            raise CodecError('body has %d bytes beyond what signature %r describes' % (len(body) - end, sig))
        p.body_typed = typed
        p.body = R.plain_list(sig, typed)
    elif body_len and strict:
        raise CodecError('body bytes without a signature')
    p.raw_body = bytes(body)
    return p


def split_stream(data):
    """Split a byte stream into complete messages (list of bytes) + remainder."""
    out = []
    pos = 0
    while True:
        n = frame_length(data[pos:pos + 16])
        if n is None or len(data) - pos < n:
            break
        out.append(bytes(data[pos:pos + n]))
        pos += n
    return out, bytes(data[pos:])
