#!/venv/bin/python -B
"""
reverts.py [substr...] — for every defect recorded as 'fixed: <commit>' in known_findings.json, revert
that single commit on a scratch copy of /repo (outside /repo and /verif) and expect the quick check of
the finding's property to report a VIOLATION again ("a fixed entry suppresses nothing").
"""
import json
import os
import shutil
import subprocess
import sys
import tempfile
import time

HERE = os.path.dirname(os.path.dirname(os.path.abspath(__file__)))


def main():
    subs = sys.argv[1:]
    kf = json.load(open(os.path.join(HERE, 'known_findings.json')))
    jobs = []
    for e in kf['findings']:
        st = e.get('status', '')
        if st.startswith('fixed:'):
            jobs.append((e['property'], e['key'], st.split(':', 1)[1].strip()))
    if subs:
        jobs = [j for j in jobs if any(s in '%s %s %s' % j for s in subs)]
    bad = 0
    for prop, key, commit in jobs:
        tmp = tempfile.mkdtemp(prefix='txdbus-revert-')
        repo = os.path.join(tmp, 'repo')
        try:
            shutil.copytree('/repo', repo, ignore=shutil.ignore_patterns('.git', '__pycache__', '*.pyc'))
            diff = subprocess.run(['git', '-C', '/repo', 'show', '--format=', commit], capture_output=True, text=True).stdout
            pf = os.path.join(tmp, 'c.diff')
            open(pf, 'w').write(diff)
            r = subprocess.run(['git', 'apply', '-R', '--unsafe-paths', '--directory=' + repo, pf], cwd=tmp,
                               capture_output=True, text=True)
            if r.returncode != 0:
                r = subprocess.run(['patch', '-R', '-p1', '-d', repo, '-i', pf], capture_output=True, text=True)
            if r.returncode != 0:
                print('%-4s %-34s %s  REVERT-DOES-NOT-APPLY (later commits touch the same lines)' % (prop, key, commit))
                continue
            t0 = time.time()
            r = subprocess.run([os.path.join(HERE, 'vcheck'), prop, '--tier', 'quick', '--out', os.path.join(tmp, 'ev.json')],
                               cwd=HERE, env=dict(os.environ, TXDBUS_REPO=repo), capture_output=True, text=True, timeout=3600)
            verdict = {0: 'MISSED', 1: 'caught', 2: 'INCONCLUSIVE'}.get(r.returncode, 'rc%d' % r.returncode)
            first = [l for l in r.stdout.splitlines() if l.startswith(('  mechanism', 'INCONCLUSIVE'))][:1]
            print('%-4s %-34s %s  %-8s %3.0fs %s' % (prop, key, commit, verdict, time.time() - t0, (first or [''])[0][:140]))
            if verdict != 'caught':
                bad += 1
        finally:
            shutil.rmtree(tmp, ignore_errors=True)
    print('%d reverts, %d not caught' % (len(jobs), bad))
    return 1 if bad else 0


if __name__ == '__main__':
    sys.exit(main())
