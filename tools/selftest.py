#!/venv/bin/python -B
"""
Self-validation of the monitors: applies each patch of mutants/ (and seeded/<id>/patch.diff)
to a scratch copy of /repo *outside* /repo and /verif, optionally confirms that the pinned
test-suite still passes there, runs the quick check of the property named in the patch's file
name with TXDBUS_REPO=<copy>, and expects exit 1 (VIOLATION).  Removes the copy.

usage: tools/selftest.py [--tests] [--tier quick] [name-substring ...]
Patch naming: mutants/C07__what.patch  (several properties: C03+C10__what.patch)
"""
import glob
import json
import os
import shutil
import subprocess
import sys
import tempfile
import time

HERE = os.path.dirname(os.path.dirname(os.path.abspath(__file__)))


def stable_tests_pass(repo, retries=2):
    """The pinned suite binds a fixed abstract socket: concurrent runs on this machine collide, so retry."""
    ok, missing = _stable_tests_pass(repo)
    while not ok and retries > 0:
        time.sleep(3)
        retries -= 1
        ok, missing = _stable_tests_pass(repo)
    return ok, missing


_NETNS = []


def _private_netns():
    if not _NETNS:
        try:
            _NETNS.append(subprocess.run(['unshare', '-n', 'true'], capture_output=True).returncode == 0)
        except OSError:
            _NETNS.append(False)
    return _NETNS[0]


def _stable_tests_pass(repo):
    out = os.path.join(repo, '.junit.xml')
    cmd = ['/venv/bin/python', '-m', 'pytest', '-q', '-p', 'no:cacheprovider', '--timeout=900', '--junitxml=' + out]
    if _private_netns():
        # the suite binds a fixed abstract socket name: a private network namespace keeps concurrent runs apart
        cmd = ['unshare', '-n', 'sh', '-c', '(ip link set lo up 2>/dev/null || true); exec "$@"', 'sh'] + cmd
    subprocess.run(cmd, cwd=repo, stdout=subprocess.DEVNULL, stderr=subprocess.DEVNULL,
                   env=dict(os.environ, PYTHONDONTWRITEBYTECODE='1'))
    import xml.etree.ElementTree as ET
    base = json.load(open('/root/.vp/BASELINE.json'))
    want = set(base['stable_pass'])
    ok = set()
    try:
        for tc in ET.parse(out).getroot().iter('testcase'):
            if not any(ch.tag in ('failure', 'error', 'skipped') for ch in tc):
                ok.add('%s::%s' % (tc.get('classname'), tc.get('name')))
    except Exception:
        return False, ['no junit output']
    return not (want - ok), sorted(want - ok)


def main():
    args = [a for a in sys.argv[1:] if not a.startswith('--')]
    run_tests = '--tests' in sys.argv
    tier = 'quick'
    patches = sorted(glob.glob(os.path.join(HERE, 'mutants', '*.patch')))
    for d in sorted(glob.glob(os.path.join(HERE, 'seeded', '*', 'patch.diff'))):
        patches.append(d)
    if args:
        patches = [p for p in patches if any(a in p for a in args)]
    results = []
    for p in patches:
        if p.endswith('patch.diff'):
            name = os.path.basename(os.path.dirname(p))
            meta = json.load(open(os.path.join(os.path.dirname(p), 'meta.json')))
            props = meta['property'] if isinstance(meta['property'], list) else [meta['property']]
        else:
            name = os.path.basename(p)[:-6]
            props = name.split('__')[0].split('+')
        tmp = tempfile.mkdtemp(prefix='txdbus-mut-')
        repo = os.path.join(tmp, 'repo')
        try:
            subprocess.run(['git', '-C', '/repo', 'worktree', 'prune'], stdout=subprocess.DEVNULL)
            shutil.copytree('/repo', repo, ignore=shutil.ignore_patterns('.git', '__pycache__', '*.pyc'))
            r = subprocess.run(['git', 'apply', '--unsafe-paths', '--directory=' + repo, p], cwd=tmp,
                               capture_output=True, text=True)
            if r.returncode != 0:
                r = subprocess.run(['patch', '-p1', '-d', repo, '-i', p], capture_output=True, text=True)
            if r.returncode != 0:
                results.append((name, props, 'PATCH-FAILED', r.stderr[-200:] + r.stdout[-200:]))
                print('%-52s %-6s %-22s %s' % (name, ','.join(props), 'PATCH-FAILED', results[-1][3][:200]), flush=True)
                continue
            tests = ''
            if run_tests:
                ok, missing = stable_tests_pass(repo)
                tests = 'tests-pass' if ok else 'TESTS-FAIL(%d)' % len(missing)
            for prop in props:
                t0 = time.time()
                env = dict(os.environ, TXDBUS_REPO=repo, VERIF_NO_EVIDENCE='1')
                r = subprocess.run([os.path.join(HERE, 'vcheck'), prop, '--tier', tier, '--out',
                                    os.path.join(tmp, 'ev.json')], cwd=HERE, env=env,
                                   capture_output=True, text=True, timeout=3600)
                lines = [l for l in r.stdout.splitlines() if l.startswith(('VIOLATION', '  mechanism', 'INCONCLUSIVE'))]
                verdict = {0: 'MISSED', 1: 'caught', 2: 'INCONCLUSIVE'}.get(r.returncode, 'rc%d' % r.returncode)
                results.append((name, [prop], verdict + ' ' + tests, '%.0fs ' % (time.time() - t0) +
                                ' | '.join(lines[:4])[:300]))
                print('%-52s %-6s %-22s %s' % ((name, prop) + results[-1][2:]), flush=True)
        finally:
            shutil.rmtree(tmp, ignore_errors=True)
    bad = 0
    for name, props, verdict, detail in results:
        if not verdict.startswith('caught'):
            bad += 1
    print('%d mutant runs, %d not caught' % (len(results), bad))
    return 1 if bad else 0


if __name__ == '__main__':
    sys.exit(main())
