#!/venv/bin/python -B
"""
report.py — fills the block between <!-- SELFTEST:BEGIN --> and <!-- SELFTEST:END --> of DESIGN.md from
  .work/selftest-full.log   (tools/selftest.py --tests)
  .work/reverts.log         (tools/reverts.py)
  seeded/*/meta.json        (tools/intake.py)
"""
import glob
import json
import os
import re

HERE = os.path.dirname(os.path.dirname(os.path.abspath(__file__)))


def main():
    out = []
    # ---- hand-made mutants
    p = os.path.join(HERE, '.work', 'selftest-full.log')
    rows = []
    if os.path.exists(p):
        for line in open(p, errors='replace'):
            m = re.match(r'^(\S+)\s+(C\d\d)\s+(caught|MISSED|INCONCLUSIVE|PATCH-FAILED)\s*(tests-pass|TESTS-FAIL\(\d+\))?\s+(\d+)s\s*(.*)$', line)
            if m and '__' in m.group(1):
                mech = re.search(r'mechanism=([^:]+):', m.group(6))
                rows.append((m.group(2), m.group(1).split('__', 1)[1], m.group(3), m.group(4) or '', mech.group(1) if mech else ''))
    out.append('**1. Hand-made mutants** (`mutants/`): %d runs, %d caught. "tests" says whether the 164 pinned tests '
               'still pass with the mutant (mutants that the suite itself catches were kept as monitor smoke tests).\n' % (
                   len(rows), sum(1 for r in rows if r[2] == 'caught')))
    out.append('| Check | Mutant | Result | tests | Deciding monitor (mechanism key) |')
    out.append('|---|---|---|---|---|')
    for r in sorted(rows):
        out.append('| %s | %s | %s | %s | %s |' % (r[0], r[1].replace('_', ' '), r[2], {'tests-pass': 'pass', '': '?'}.get(r[3], 'fail'), r[4]))
    # ---- reverts
    p = os.path.join(HERE, '.work', 'reverts.log')
    rows = []
    if os.path.exists(p):
        for line in open(p, errors='replace'):
            m = re.match(r'^(C\d\d)\s+(\S+)\s+([0-9a-f]{7})\s+(caught|MISSED|INCONCLUSIVE|REVERT-DOES-NOT-APPLY)', line)
            if m:
                rows.append(m.groups())
    out.append('\n**2. Reverts of the `fix:` commits** (`tools/reverts.py`): %d mechanisms, %d caught, %d not revertible in '
               'isolation.\n' % (len(rows), sum(1 for r in rows if r[3] == 'caught'),
                                 sum(1 for r in rows if r[3].startswith('REVERT'))))
    out.append('| Check | Mechanism | Commit | Result |')
    out.append('|---|---|---|---|')
    for r in rows:
        out.append('| %s | %s | `%s` | %s |' % (r[0], r[1], r[2], r[3].lower()))
    # ---- seeded
    rows = []
    for d in sorted(glob.glob(os.path.join(HERE, 'seeded', '*'))):
        try:
            m = json.load(open(os.path.join(d, 'meta.json')))
        except Exception:
            continue
        mech = ''
        for l in m['check'].get('first_lines', []):
            mm = re.search(r'mechanism=([^:]+):', l)
            if mm:
                mech = mm.group(1)
                break
        need = (m.get('needs_to_manifest') or '').strip().splitlines()
        summary = m.get('summary') or ''
        now = m['check']['verdict']
        if m.get('disposition'):
            # a change the demonstration distinguishes but which, on reading the statement again, does not break it
            now = 'not judged: ' + m['disposition']
        rows.append((os.path.basename(d), m['property'], 'yes' if m.get('confirmed') else 'NO', now, mech,
                     m.get('first_result', ''), summary))
    out.append('\n**3. Independently seeded changes** (`seeded/<id>/`, written by sub-agents from the property text only): '
               '%d confirmed, %d caught by the quick check as committed. "first run" is the verdict of the check as it stood '
               '*before* it saw the change; where that was a miss the check was strengthened (7.1). %d submitted change(s) '
               'were, on reading the statements again, judged not to break them and are deliberately not flagged (7.1).\n' % (
                   sum(1 for r in rows if r[2] == 'yes'), sum(1 for r in rows if r[3] == 'caught'),
                   sum(1 for r in rows if r[3].startswith('not judged'))))
    out.append('| Id | Check | What the change does / what it needs to manifest | first run | now | Deciding monitor |')
    out.append('|---|---|---|---|---|---|')
    for r in rows:
        out.append('| %s | %s | %s | %s | %s | %s |' % (r[0], r[1], r[6].replace('|', '/'), r[5] or r[3], r[3], r[4]))
    block = '\n'.join(out)
    p = os.path.join(HERE, 'DESIGN.md')
    s = open(p).read()
    a = s.index('<!-- SELFTEST:BEGIN -->') + len('<!-- SELFTEST:BEGIN -->')
    b = s.index('<!-- SELFTEST:END -->')
    s = s[:a] + '\n' + block + '\n' + s[b:]
    open(p, 'w').write(s)
    print('DESIGN.md self-validation block updated: %d lines' % len(out))


if __name__ == '__main__':
    main()
