#!/bin/bash
# tools/sweep.sh [tier] [seeds...] — runs every claimed check for each seed (16 at a time); prints non-zero exits.
cd "$(dirname "$0")/.."
TIER=${1:-quick}; shift
SEEDS=${@:-0 1 2 3}
mkdir -p .work/sweep
for seed in $SEEDS; do
  for p in C01 C02 C03 C04 C05 C06 C07 C08 C09 C10 C11 C12 C13 C14 C15 C16 C17 C18 C19 C20; do
    echo "$p $seed"
  done
done | xargs -P 16 -L 1 bash -c 'VERIF_SEED=$1 ./vcheck $0 --tier '"$TIER"' --out .work/sweep/$0-$1.json > .work/sweep/$0-$1.log 2>&1; echo "$0 seed=$1 rc=$? $(tail -1 .work/sweep/$0-$1.log | cut -c1-150)"' | sort | grep -v "rc=0" 
echo "sweep done"
