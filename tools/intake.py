#!/venv/bin/python -B
"""
intake.py Cxx [SRC_DIR] [--id NAME]

Takes a seeded property-breaking change produced independently (SRC_DIR, default
/tmp/seed-Cxx/SEED with patch.diff, demo.py, notes.md), confirms on scratch copies of /repo
(outside /repo and /verif) that
  1. demo.py passes on the unchanged tree,
  2. the patch applies, the pinned test-suite still passes (all BASELINE stable tests),
  3. demo.py fails with the patch,
then runs the quick check of the property against the patched copy and stores everything under
/verif/seeded/<id>/ (patch.diff, demo.py, notes.md, meta.json).  Scratch copies are removed.
"""
import json
import os
import shutil
import subprocess
import sys
import tempfile
import time

HERE = os.path.dirname(os.path.dirname(os.path.abspath(__file__)))
sys.path.insert(0, os.path.join(HERE, 'tools'))
from selftest import stable_tests_pass  # noqa: E402


def run_demo(demo_src, placeholder, repo, tmp):
    text = open(demo_src).read().replace(placeholder, repo)
    path = os.path.join(tmp, 'demo_run.py')
    with open(path, 'w') as f:
        f.write(text)
    try:
        r = subprocess.run(['/venv/bin/python', '-B', path], capture_output=True, text=True, timeout=300, cwd=tmp,
                           env=dict(os.environ, TXDBUS_REPO=repo, PYTHONDONTWRITEBYTECODE='1'))
        return r.returncode, (r.stdout + r.stderr)[-600:]
    except subprocess.TimeoutExpired:
        return 124, 'timeout'


def main():
    argv = list(sys.argv[1:])
    name = None
    if '--id' in argv:
        i = argv.index('--id')
        name = argv[i + 1]
        del argv[i:i + 2]
    args = [a for a in argv if not a.startswith('--')]
    prop = args[0].upper()
    src = args[1] if len(args) > 1 else '/tmp/seed-%s/SEED' % prop
    placeholder = os.path.dirname(src.rstrip('/')) if src.endswith('SEED') or src.endswith('SEED/') else '/tmp/seed-%s' % prop
    patch = os.path.join(src, 'patch.diff')
    demo = os.path.join(src, 'demo.py')
    for f in (patch, demo):
        if not os.path.exists(f):
            print('missing', f)
            return 2
    tmp = tempfile.mkdtemp(prefix='txdbus-intake-')
    meta = {'property': prop, 'source': 'independent sub-agent given only the property text and a scratch worktree',
            'checked_at': time.strftime('%Y-%m-%d %H:%M:%S'), 'ran': []}
    try:
        clean = os.path.join(tmp, 'clean')
        patched = os.path.join(tmp, 'patched')
        ign = shutil.ignore_patterns('.git', '__pycache__', '*.pyc', 'SEED')
        shutil.copytree('/repo', clean, ignore=ign)
        shutil.copytree('/repo', patched, ignore=ign)
        r = subprocess.run(['git', 'apply', '--unsafe-paths', '--directory=' + patched, patch], cwd=tmp,
                           capture_output=True, text=True)
        if r.returncode != 0:
            r = subprocess.run(['patch', '-p1', '-d', patched, '-i', patch], capture_output=True, text=True)
        if r.returncode != 0:
            print('PATCH DOES NOT APPLY:', r.stderr[-300:], r.stdout[-300:])
            return 2
        rc0, out0 = run_demo(demo, placeholder, clean, tmp)
        meta['ran'].append({'cmd': 'demo.py on the unchanged tree', 'exit': rc0, 'tail': out0[-200:]})
        ok, missing = stable_tests_pass(patched)
        meta['ran'].append({'cmd': 'pinned test-suite on the patched tree', 'stable_tests_pass': ok, 'not_passing': missing[:5]})
        rc1, out1 = run_demo(demo, placeholder, patched, tmp)
        meta['ran'].append({'cmd': 'demo.py on the patched tree', 'exit': rc1, 'tail': out1[-300:]})
        meta['confirmed'] = bool(rc0 == 0 and ok and rc1 not in (0, 124))
        print('demo clean rc=%s | tests ok=%s | demo patched rc=%s -> confirmed=%s' % (rc0, ok, rc1, meta['confirmed']))
        if not meta['confirmed']:
            print(out0[-300:])
            print(out1[-300:])
        # our check against the patched tree
        t0 = time.time()
        r = subprocess.run([os.path.join(HERE, 'vcheck'), prop, '--tier', 'quick', '--out', os.path.join(tmp, 'ev.json')],
                           cwd=HERE, env=dict(os.environ, TXDBUS_REPO=patched), capture_output=True, text=True, timeout=3600)
        lines = [l for l in r.stdout.splitlines() if l.startswith(('VIOLATION', '  mechanism', 'INCONCLUSIVE'))]
        meta['check'] = {'cmd': 'TXDBUS_REPO=<patched copy> ./vcheck %s --tier quick' % prop, 'exit': r.returncode,
                         'verdict': {0: 'MISSED', 1: 'caught', 2: 'inconclusive'}.get(r.returncode, str(r.returncode)),
                         'first_lines': lines[:4], 'wall_s': round(time.time() - t0, 1)}
        print('check:', meta['check']['verdict'], ' | '.join(lines[:2])[:300])
        if os.path.exists(os.path.join(src, 'notes.md')):
            meta['needs_to_manifest'] = open(os.path.join(src, 'notes.md')).read()[:1500]
        meta['demo_repo_placeholder'] = placeholder
        meta['demo_usage'] = 'replace the placeholder path in demo.py by the tree to test, run with /venv/bin/python'
        if meta['confirmed']:
            name = name or '%s-%s' % (prop, time.strftime('%H%M%S'))
            dst = os.path.join(HERE, 'seeded', name)
            os.makedirs(dst, exist_ok=True)
            # the verdict of the check as it stood when it first saw this change is kept
            meta['first_result'] = meta['check']['verdict']
            try:
                prev = json.load(open(os.path.join(dst, 'meta.json')))
                meta['first_result'] = prev.get('first_result') or prev['check']['verdict']
            except Exception:
                pass
            notes = meta.get('needs_to_manifest', '')
            lines = [l.strip(' -*#') for l in notes.splitlines() if l.strip(' -*#')]
            meta['summary'] = ' '.join(lines[:3])[:260]
            shutil.copy(patch, os.path.join(dst, 'patch.diff'))
            shutil.copy(demo, os.path.join(dst, 'demo.py'))
            if os.path.exists(os.path.join(src, 'notes.md')):
                shutil.copy(os.path.join(src, 'notes.md'), os.path.join(dst, 'notes.md'))
            with open(os.path.join(dst, 'meta.json'), 'w') as f:
                json.dump(meta, f, indent=1)
            print('stored in', dst)
        return 0 if meta['confirmed'] else 1
    finally:
        shutil.rmtree(tmp, ignore_errors=True)


if __name__ == '__main__':
    sys.exit(main())
