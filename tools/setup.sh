#!/bin/sh
# Offline setup: nothing to compile.  Installs the optional contract libraries beside the
# checks (git-ignored .deps) and verifies that the repository imports under /venv.
cd "$(dirname "$0")/.." || exit 1
mkdir -p .work evidence replays
if [ ! -d .deps/icontract ]; then
  /venv/bin/pip install -q --no-index --find-links /opt/veriftools/wheels --target .deps icontract deal >/dev/null 2>&1 || echo "note: icontract/deal not installed (optional)"
fi
/venv/bin/python -B -c "import sys; sys.path.insert(0,'/repo'); import txdbus, twisted; print('setup ok: txdbus', txdbus.__file__, 'twisted', twisted.__version__)"
