#!/venv/bin/python -B
"""Regenerates /verif/MANIFEST.json from the table below (checks whose module exists are claimed)."""
import json
import os
import subprocess

HERE = os.path.dirname(os.path.dirname(os.path.abspath(__file__)))

T = {
    'C01': ('exploration', '2/3 C01',
            'self round-trip oracle + per-level byte-count monitors on the real codec',
            'Runs the real marshal/unmarshal on grammar-enumerated signatures (bounded-exhaustive) and random deep ones '
            'with boundary values, both byte orders, offsets 0..15; observing wrappers on every marshaller check the '
            'reported byte count at every nesting level. Held-on-observed only; exhaustive sub-domain bounds are in the evidence.',
            'Value generator and normalise() follow the statement; Python float/str equality trusted.'),
    'C02': ('exploration', '3 C02',
            'differential monitor against an independent reference codec, both directions',
            'Every marshal() output is decoded by a strict spec-written decoder (alignment, zero padding, NUL, lengths) and '
            're-encoded byte-identically; reference-encoded bytes (incl. variant contents txdbus never infers) are decoded by '
            'txdbus. Alignment table (17 codes x 16 offsets x 2 orders) exhaustive.',
            'harness/ref_codec.py is the trusted base (validated against the spec examples and the repo test vectors).'),
    'C03': ('exploration', '3 C03',
            'reference message parser/builder as oracle over constructed and foreign messages',
            'All 4 constructors x optional-field subsets x flags x random bodies are parsed by an independent parser; '
            'foreign messages (both byte orders, shuffled and unknown fields) are parsed by txdbus; serial monitor; size-limit probes.',
            'harness/ref_message.py trusted; 128 MiB probes need ~600 MB RAM.'),
    'C04': ('exploration', '3 C04',
            'sent-vs-delivered history comparison under enumerated read partitions',
            'Real BasicDBusProtocol subclasses fed message streams cut at every single and double position (short streams), '
            '1-byte reads, thousands of messages per read, random partitions, and the handshake-coalesced partition; delivered '
            'handler calls must equal the sent list.',
            'Stream semantics of the simulated transport (split/coalesce only).'),
    'C05': ('exploration', '3 C05',
            'sys.monitoring interpreter-step meter with a committed linear budget',
            'Truncations, byte mutations, lying lengths and hostile signatures are decoded by the real parseMessage/unmarshal/'
            'dataReceived under a step meter local to txdbus code; budget linear in input length; any Exception is a rejection, '
            'BaseException/over-budget/oversized result is a violation.',
            'Work inside C primitives is invisible to the meter; constants committed, never calibrated on the tree under test.'),
    'C06': ('exploration', '3 C06',
            'online spec state-machine oracle + safety monitor over enumerated line sequences',
            'Real BusProtocol+BusAuthenticator+mechanisms on a simulated transport; all command sequences up to length L, scripted '
            'mechanisms, random long sequences, read splittings, boundary probes, conforming reference clients.',
            'harness/ref_auth.py model; SO_PEERCRED and pwd entries substituted by the harness.'),
    'C07': ('exploration', '3 C07',
            'transport-log history monitors S1-S6 over enumerated server-line sequences',
            'Real DBusClientConnection+ClientAuthenticator against all server line sequences up to L on UNIX/non-UNIX '
            'transports and full handshakes against a reference server for every accepted-mechanism subset.',
            'Monitors phrased on the transport log only.'),
    'C08': ('exploration', '3 C08',
            'exactly-once / own-reply monitors over enumerated event interleavings with virtual time',
            'N concurrent calls with unique tokens; every permutation of replies, errors, deadlines, duplicates, unsolicited '
            'replies and a final loss (N<=3 exhaustive, random beyond); counting callback pairs on each Deferred.',
            'txdbus.client.reactor replaced by task.Clock (environment substitution).'),
    'C09': ('fault_enumeration', '3 C09',
            'fault enumeration: transport cut at every byte boundary, reachability masks; fire-once counters',
            'connect() on a MemoryReactorClock with every reachability mask; the server stream is cut after every byte; '
            'established connections are lost with k calls/timers/callbacks/proxies in flight.',
            'MemoryReactorClock stands in for the reactor.'),
    'C10': ('exploration', '3 C10',
            'reference dispatch table as oracle; replies parsed from the wire',
            'Generated exported classes x call messages (right/wrong path, interface, member, signature, flags) x outcomes '
            '(value, tuple, Deferred, exception, unencodable); exactly-one-reply and invocation monitors.',
            'harness reference dispatcher; wire parse by ref_message.'),
    'C11': ('exploration', '3 C11',
            'end-to-end token monitors over explored delivery schedules on a simulated network',
            'Real clients + real Bus on SimNet; proxies explicit and introspected; concurrent calls; DFS over whole-write '
            'delivery orders for small scenarios, random orders with read splitting beyond.',
            'SimNet stream semantics.'),
    'C12': ('exploration', '3 C12',
            'reference match-rule evaluator as oracle over rule sets, signals and add/remove histories',
            'MessageRouter directly and through a real DBusClientConnection; near-miss matrix per constraint key; rule text '
            're-parsed by a spec parser.',
            'harness/ref_match.py.'),
    'C13': ('exploration', '3 C13',
            'step-by-step comparison with a reference name-table model over enumerated histories',
            'Up to 4 real clients on the real bus; all histories up to a bound + random long ones; GetNameOwner and '
            'ListQueuedOwners after every step.',
            'harness/ref_names.py; statement-silent points are don\'t-cares.'),
    'C14': ('exploration', '3 C14',
            'token-based exactly-once / right-recipient / true-sender monitors on the real bus',
            'Scripted raw clients (forged senders, all 4 types) and real clients; histories of connects, names, rules, '
            'unicasts, broadcasts; wire-level comparison of forwarded messages.',
            'ref_names + ref_match.'),
    'C15': ('exploration', '3 C15',
            'structural-equality oracle on XML round trips of generated interfaces',
            'Random interface definitions through generateIntrospectionXML/getInterfacesFromXML with registry isolation; '
            'both replaceKnownInterfaces modes.',
            'xml.sax trusted.'),
    'C16': ('exploration', '3 C16',
            'reference tree model compared after every step of enumerated export/unexport histories',
            'All histories up to a bound over a path pool with prefix-sharing siblings; every path queried after every step '
            'via real method-call messages.',
            'harness reference tree.'),
    'C17': ('exploration', '3 C17',
            'dict model of property state vs wire replies over generated declarations and histories',
            'Generated classes (signature x access x emits mode, colliding names, inheritance), histories of local '
            'assignment and remote Get/Set/GetAll; variant types read from the wire.',
            'ref_codec for the wire variant type.'),
    'C18': ('exploration', '3 C18',
            'differential monitor: real validators vs hand-written grammar recogniser',
            'Every string up to length 5 (quick) / 6 (thorough) over a 9-class alphabet through the 5 validators, random long '
            'strings, the 255/256 boundary and the message-constructor matrix.',
            'harness/ref_grammar.py written from the DBus specification.'),
    'C19': ('exploration', '3 C19',
            'reference splitter + variant round-trip monitors over enumerated signatures and generated values',
            'Every valid signature up to a length bound vs the reference decomposition; random signatures to 255 bytes at '
            'the nesting limits; Python value trees through sigFromPy and a variant round trip.',
            'harness/ref_grammar.py.'),
    'C20': ('exploration', '3 C20',
            'token conservation/attribution monitors over all stream-consistent fd/read interleavings',
            'Messages with 0-3 descriptor tokens; every interleaving of descriptor arrival and read chunks consistent with '
            'stream order (<=3 messages), random with splitting beyond; sender-side order on a recording IUNIXTransport.',
            'Descriptors are opaque tokens.'),
}


def main():
    checks = []
    na = []
    for pid in sorted(T):
        level, ref, tech, text, note = T[pid]
        if os.path.exists(os.path.join(HERE, 'checks', pid.lower() + '.py')):
            checks.append({
                'property_id': pid,
                'quick_cmd': './vcheck %s --tier quick' % pid,
                'thorough_cmd': './vcheck %s --tier thorough' % pid,
                'evidence_file': 'evidence/%s.json' % pid,
                'replay_cmd_template': './vcheck %s --replay {path}' % pid,
                'engine': 'vcheck',
                'level_claimed': {'category': level, 'text': text, 'design_ref': 'DESIGN.md section ' + ref},
                'level_note': note,
                'technique': 'runtime monitoring: ' + tech,
            })
        else:
            na.append({'property_id': pid, 'reason': 'check not built yet (planned, see DESIGN.md section %s)' % ref})
    hooks_commits = []
    m = {
        'version': 1,
        'setup_cmd': './tools/setup.sh',
        'hooks': {
            'guard': 'TXDBUS_VERIF',
            'enable': 'no source hook exists: checks import txdbus from /repo (TXDBUS_REPO) and observe it at its API '
                      'boundaries; TXDBUS_VERIF=1 is exported by the harness for forward compatibility only',
            'baseline_off_cmd': './tools/baseline_off.sh',
            'source_commits': hooks_commits,
            'add_only': True,
        },
        'engines': [{'name': 'vcheck', 'path': 'vcheck', 'serves_properties': [c['property_id'] for c in checks],
                     'kind_free_text': 'Python runtime-monitoring harness: simulated transports/scheduler, reference '
                                       'models as online oracles, sys.monitoring step meter, history checkers'}],
        'checks': checks,
        'not_applicable': na,
        'notes': 'All checks: exit 0 held on what was observed, 1 VIOLATION, 2 INCONCLUSIVE. known_findings.json lists '
                 'recorded defects (open => KNOWN-FINDING line, fixed => nothing suppressed).',
    }
    with open(os.path.join(HERE, 'MANIFEST.json'), 'w') as f:
        json.dump(m, f, indent=1)
        f.write('\n')
    print('claimed:', [c['property_id'] for c in checks])


if __name__ == '__main__':
    main()
