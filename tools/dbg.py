#!/venv/bin/python -B
"""dbg.py PROP [tier] — run a check in-process and dump every recorded violation (development aid)."""
import sys, os, json, importlib
sys.path.insert(0, os.path.dirname(os.path.dirname(os.path.abspath(__file__))))
from harness import env
prop = sys.argv[1].upper(); tier = sys.argv[2] if len(sys.argv) > 2 else 'quick'
mod = importlib.import_module('checks.' + prop.lower())
ctx = env.Ctx(prop, mod.LEVEL, tier, int(os.environ.get('VERIF_SEED') or 0))
ctx._printed_viol = set()
orig = ctx.report
seen = {}
def report(key, what, witness=None, case=None):
    if key is not None and key in ctx._known: return orig(key, what, witness, case)
    k = (key, what[:int(os.environ.get('DBG_W', 90))])
    seen.setdefault(k, [0, witness, case]); seen[k][0] += 1
    return True
ctx.report = report
mod.run(ctx)
for (key, what), (n, w, c) in sorted(seen.items(), key=lambda kv: -kv[1][0])[:int(os.environ.get('DBG_N', 40))]:
    print(n, key, what); print('     ', json.dumps(env.jsonable(w))[:int(os.environ.get('DBG_L', 400))]); print('     case', c)
print('inconclusive:', ctx.inconclusive, 'counters:', {k: v for k, v in ctx.counters.items()})
