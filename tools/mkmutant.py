#!/venv/bin/python -B
"""mkmutant.py NAME FILE OLD NEW [FILE OLD NEW ...] — writes mutants/NAME.patch replacing OLD by NEW (exactly one occurrence) in /repo/FILE."""
import difflib, os, sys
HERE = os.path.dirname(os.path.dirname(os.path.abspath(__file__)))
name = sys.argv[1]
rest = sys.argv[2:]
out = []
by_file = {}
for i in range(0, len(rest), 3):
    f, old, new = rest[i:i+3]
    old = old.encode().decode('unicode_escape'); new = new.encode().decode('unicode_escape')
    src = by_file.get(f) or open('/repo/' + f).read()
    if src.count(old) != 1:
        sys.exit('%s: %d occurrences of %r' % (f, src.count(old), old))
    by_file[f] = src.replace(old, new)
for f, new_src in by_file.items():
    a = open('/repo/' + f).read().splitlines(True)
    b = new_src.splitlines(True)
    out.extend(difflib.unified_diff(a, b, 'a/' + f, 'b/' + f))
os.makedirs(os.path.join(HERE, 'mutants'), exist_ok=True)
open(os.path.join(HERE, 'mutants', name + '.patch'), 'w').write(''.join(out))
print(''.join(out))
