#!/bin/bash
# tools/round.sh <suffix> [props...] — serial intake of the seeded changes in /tmp/seed-Cxx/SEED as <Cxx>-<suffix>
cd "$(dirname "$0")/.."
SUF=$1; shift
PROPS=${@:-C01 C02 C03 C04 C05 C06 C07 C08 C09 C10 C11 C12 C13 C14 C15 C16 C17 C18 C19 C20}
for p in $PROPS; do
  if [ -f /tmp/seed-$p/SEED/patch.diff ]; then
    tools/intake.py $p --id $p-$SUF > .work/intake-$p-$SUF.log 2>&1
    echo "$p rc=$? $(grep -a "^demo clean\|^check:" .work/intake-$p-$SUF.log | tr "\n" " " | cut -c1-240)"
  else
    echo "$p no SEED"
  fi
done
