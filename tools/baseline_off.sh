#!/bin/sh
# Runs the repository's pinned suite with the verification guard OFF and checks that
# every test of BASELINE.json's stable_pass list passes.
unset TXDBUS_VERIF
cd /repo || exit 2
OUT=$(mktemp /tmp/txdbus-baseline-XXXXXX.xml)
/venv/bin/python -m pytest -ra -q -p no:cacheprovider --timeout=900 --continue-on-collection-errors --junitxml="$OUT" >/dev/null 2>&1
/venv/bin/python - "$OUT" <<'PY'
import json, sys, xml.etree.ElementTree as ET
base = json.load(open('/root/.vp/BASELINE.json'))
want = set(base['stable_pass'])
ok = set()
for tc in ET.parse(sys.argv[1]).getroot().iter('testcase'):
    if not any(ch.tag in ('failure', 'error', 'skipped') for ch in tc):
        ok.add('%s::%s' % (tc.get('classname'), tc.get('name')))
missing = sorted(want - ok)
print('baseline stable tests passing: %d/%d' % (len(want & ok), len(want)))
for m in missing:
    print('NOT PASSING:', m)
sys.exit(1 if missing else 0)
PY
RC=$?
rm -f "$OUT"
exit $RC
