"""
C06 — the bus authenticates a peer only after a mechanism accepted it.

Real BusProtocol + BusAuthenticator + real mechanisms on a simulated transport, driven with
enumerated / random sequences of authentication lines.  Oracles: a spec state-machine model
of the server (allowed reply classes per (state, command)), mechanism-specific acceptance
rules, and an independent safety monitor "authenticated => OK pending and BEGIN received".
"""
import binascii
import itertools
import os
import random

from zope.interface import implementer

from harness import authenv, simnet
from harness.env import Inconclusive
from txdbus import authentication as A
from txdbus import bus as B

PROP = 'C06'
LEVEL = 'exploration'
SHARDS = {'thorough': 16}

CREDS = (4242, 0, 0)


class MonBusProtocol(B.BusProtocol):
    def __init__(self):
        self.auth_calls = 0
        self.raw_after_auth = b''

    def connectionAuthenticated(self):
        self.auth_calls += 1
        B.BusProtocol.connectionAuthenticated(self)

    def rawDBusMessageReceived(self, raw):
        self.raw_after_auth += raw


class _Factory:
    def __init__(self, bus):
        self.bus = bus


_BUS = None


def the_bus():
    global _BUS
    if _BUS is None:
        _BUS = B.Bus()
    return _BUS


# ------------------------------------------------------------------ scripted mechanism

@implementer(A.IBusAuthenticationMechanism)
class ScriptMech:
    script = []          # class-level: outcomes consumed in order by successive step() calls
    refusals = 0
    log = []

    def getMechanismName(self):
        return 'SCRIPT'

    def init(self, protocol):
        pass

    def step(self, arg):
        ScriptMech.log.append(arg)
        if ScriptMech.script:
            o = ScriptMech.script.pop(0)
        else:
            o = 'REJECT'
        if o == 'OK':
            return ('OK', None)
        if o == 'CONTINUE':
            return ('CONTINUE', b'challenge')
        # the interface documents 'REJECT' (the EXTERNAL mechanism says that), the cookie mechanism says 'REJECTED':
        # a mechanism may use either
        ScriptMech.refusals += 1
        return ('REJECT' if ScriptMech.refusals % 2 else 'REJECTED', None)

    def getUserName(self):
        return 'scripted'

    def cancel(self):
        pass


class ScriptedAuthenticator(A.BusAuthenticator):
    authenticators = {b'SCRIPT': ScriptMech}


class ScriptProtocol(MonBusProtocol):
    authenticator = ScriptedAuthenticator


# ------------------------------------------------------------------ session

class Session:
    def __init__(self, proto_cls=MonBusProtocol, creds=CREDS):
        self.p = proto_cls()
        self.p.factory = _Factory(the_bus())
        self.ep = simnet.Endpoint(self.p, creds=creds, name='bus-side').connect()
        self.seen = 0
        self.pending = b''

    def feed(self, pieces):
        for d in pieces:
            if not self.ep.feed(d):
                break
        out = self.ep.t.written()
        new = out[self.seen:]
        self.seen = len(out)
        data = self.pending + new
        lines = data.split(b'\r\n')
        self.pending = lines.pop()
        return lines

    @property
    def closed(self):
        return self.ep.t.disconnecting or bool(self.ep.lost)

    @property
    def crashed(self):
        return self.ep.crashes[0] if self.ep.crashes else None

    def finish(self):
        if not self.ep.lost:
            self.ep.lose()


def kind_of(line):
    for k in (b'OK', b'DATA', b'REJECTED', b'ERROR', b'AGREE_UNIX_FD'):
        if line == k or line.startswith(k + b' '):
            return k.decode()
    return 'OTHER'


# ------------------------------------------------------------------ model

class Model:
    def __init__(self, mechs, creds=True):
        self.mechs = set(mechs)
        self.state = 'auth'
        self.mech = None
        self.rejects = 0
        self.closed = False
        self.authed = False
        self.creds = creds
        self.ok_pending = False

    def allowed(self, sym):
        """Set of allowed reaction classes for command `sym` in the current state."""
        cmd = sym['cmd']
        st = self.state
        if cmd == 'HIBIT':
            # a command word with bytes outside ASCII is outside the protocol's alphabet (and outside the statement's
            # quantifier): answering ERROR or dropping the connection are both accepted - treating it as the command it
            # resembles is not
            return {'ERROR', 'CLOSE'}
        if cmd == 'BEGIN':
            return {'AUTHENTICATED'} if st == 'begin' else {'CLOSE'}
        res = None
        if st == 'auth':
            if cmd == 'AUTH':
                m = sym.get('mech')
                if m is None or m not in self.mechs:
                    res = {'REJECTED'}
                elif sym.get('arg') == 'malformed':
                    res = {'ERROR', 'REJECTED', 'CLOSE'}
                elif m == 'ANONYMOUS':
                    res = {'OK'}
                elif m == 'EXTERNAL':
                    res = {'OK', 'DATA'} if self.creds else {'REJECTED'}
                elif m == 'DBUS_COOKIE_SHA1':
                    res = {'DATA'} if sym.get('arg') == 'user-known' else {'REJECTED'}
                elif m == 'SCRIPT':
                    res = {sym['outcome']}
            elif cmd == 'ERROR':
                res = {'REJECTED'}
            else:
                res = {'ERROR'}
        elif st == 'data':
            if cmd == 'DATA':
                if sym.get('arg') == 'malformed':
                    res = {'ERROR', 'REJECTED', 'CLOSE'}
                elif self.mech == 'EXTERNAL':
                    res = {'OK', 'DATA'} if self.creds else {'REJECTED'}
                elif self.mech == 'DBUS_COOKIE_SHA1':
                    a = sym.get('arg')
                    res = {'OK'} if a == 'right' else {'REJECTED'} if a == 'wrong' else {'REJECTED', 'ERROR'}
                elif self.mech == 'SCRIPT':
                    res = {sym['outcome']}
                else:
                    res = {'OK', 'DATA', 'REJECTED'}
            elif cmd in ('CANCEL', 'ERROR'):
                res = {'REJECTED'}
            else:
                res = {'ERROR'}
        elif st == 'begin':
            if cmd in ('CANCEL', 'ERROR'):
                res = {'REJECTED'}
            elif cmd == 'NEGOTIATE_UNIX_FD':
                res = {'ERROR', 'AGREE_UNIX_FD'}
            else:
                res = {'ERROR'}
        if 'REJECTED' in res and self.rejects >= 5:
            res = (res - {'REJECTED'}) | {'CLOSE'}
        return res

    def advance(self, sym, reaction):
        if reaction == 'OK':
            self.state = 'begin'
            self.ok_pending = True
            if sym['cmd'] == 'AUTH':
                self.mech = sym.get('mech')
        elif reaction == 'DATA':
            self.state = 'data'
            if sym['cmd'] == 'AUTH':
                self.mech = sym.get('mech')
        elif reaction == 'REJECTED':
            self.state = 'auth'
            self.mech = None
            self.rejects += 1
            self.ok_pending = False
        elif reaction == 'CLOSE':
            self.closed = True
        elif reaction == 'AUTHENTICATED':
            self.authed = True


# ------------------------------------------------------------------ symbols

SYMS = ['AUTH', 'AUTH_ANON', 'AUTH_ANON_resp', 'AUTH_ANON_badhex', 'AUTH_EXT', 'AUTH_EXT_uid', 'AUTH_COOKIE',
        'AUTH_COOKIE_user', 'AUTH_COOKIE_nouser', 'AUTH_BOGUS', 'DATA', 'DATA_hex', 'DATA_right', 'DATA_wrong',
        'DATA_wrong_prefix', 'DATA_badhex', 'BEGIN', 'CANCEL', 'ERROR', 'NEGOTIATE_UNIX_FD', 'junk', 'empty']


SERVER_WORDS = {'cli_OK': b'OK 0123456789abcdef0123456789abcdef', 'cli_REJECTED': b'REJECTED ANONYMOUS',
                'cli_AGREE': b'AGREE_UNIX_FD', 'cli_OK_bare': b'OK'}
HIBIT_WORDS = {'hi_AUTH': b'AU\xffTH ANONYMOUS', 'hi_AUTH2': b'AUTH\xc3\xa9 ANONYMOUS', 'hi_BEGIN': b'BEG\xc3\xa9IN',
               'hi_BEGIN2': b'BEGIN\xff', 'hi_BEGIN3': b'\xfeBEGIN', 'hi_DATA': b'DA\x80TA', 'hi_CANCEL': b'CANCEL\xa0'}


def concretise(name, ctx_state, env):
    """(line bytes, symbol-info) for a symbol given what the server said last."""
    hx = binascii.hexlify
    if name == 'AUTH':
        return b'AUTH', {'cmd': 'AUTH', 'mech': None}
    if name == 'AUTH_ANON':
        return b'AUTH ANONYMOUS', {'cmd': 'AUTH', 'mech': 'ANONYMOUS'}
    if name == 'AUTH_ANON_resp':
        return b'AUTH ANONYMOUS ' + hx(b'some trace'), {'cmd': 'AUTH', 'mech': 'ANONYMOUS', 'arg': 'valid'}
    if name == 'AUTH_ANON_badhex':
        return b'AUTH ANONYMOUS zz', {'cmd': 'AUTH', 'mech': 'ANONYMOUS', 'arg': 'malformed'}
    if name == 'AUTH_EXT':
        return b'AUTH EXTERNAL', {'cmd': 'AUTH', 'mech': 'EXTERNAL'}
    if name == 'AUTH_EXT_uid':
        return b'AUTH EXTERNAL ' + hx(b'0'), {'cmd': 'AUTH', 'mech': 'EXTERNAL', 'arg': 'valid'}
    if name == 'AUTH_COOKIE':
        return b'AUTH DBUS_COOKIE_SHA1', {'cmd': 'AUTH', 'mech': 'DBUS_COOKIE_SHA1', 'arg': 'none'}
    if name == 'AUTH_COOKIE_user':
        return b'AUTH DBUS_COOKIE_SHA1 ' + hx(authenv.USER.encode()), {'cmd': 'AUTH', 'mech': 'DBUS_COOKIE_SHA1',
                                                                        'arg': 'user-known'}
    if name == 'AUTH_COOKIE_nouser':
        return b'AUTH DBUS_COOKIE_SHA1 ' + hx(b'no_such_user_zzz'), {'cmd': 'AUTH', 'mech': 'DBUS_COOKIE_SHA1',
                                                                     'arg': 'user-unknown'}
    if name == 'AUTH_BOGUS':
        return b'AUTH BOGUS_MECH ' + hx(b'x'), {'cmd': 'AUTH', 'mech': 'BOGUS'}
    if name == 'DATA':
        return b'DATA', {'cmd': 'DATA', 'arg': 'empty'}
    if name == 'DATA_hex':
        return b'DATA ' + hx(b'hello there'), {'cmd': 'DATA', 'arg': 'valid'}
    if name in ('DATA_right', 'DATA_wrong', 'DATA_wrong_prefix'):
        ch = ctx_state.get('challenge')
        if ch is None:
            return b'DATA ' + hx(b'c0ffee 0123456789abcdef0123456789abcdef01234567'), {'cmd': 'DATA', 'arg': 'valid'}
        context, cid, server_challenge = ch
        cookie = env.read_cookie(context, cid)
        if cookie is None:
            raise Inconclusive('cookie %r/%r not found in the keyring the server wrote' % (context, cid))
        if name == 'DATA_right':
            return b'DATA ' + hx(authenv.cookie_response(server_challenge, cookie)), {'cmd': 'DATA', 'arg': 'right'}
        if name == 'DATA_wrong_prefix':
            # a strict prefix of the right digest (or of the right answer with another client challenge) is wrong
            good = authenv.cookie_response(server_challenge, cookie)
            return b'DATA ' + hx(good[:-32]), {'cmd': 'DATA', 'arg': 'wrong'}
        bad = authenv.cookie_response(server_challenge, cookie[:-1] + (b'0' if cookie[-1:] != b'0' else b'1'))
        return b'DATA ' + hx(bad), {'cmd': 'DATA', 'arg': 'wrong'}
    if name == 'DATA_badhex':
        return b'DATA xyz', {'cmd': 'DATA', 'arg': 'malformed'}
    if name == 'BEGIN':
        return b'BEGIN', {'cmd': 'BEGIN'}
    if name == 'CANCEL':
        return b'CANCEL', {'cmd': 'CANCEL'}
    if name == 'ERROR':
        return b'ERROR "client says no"', {'cmd': 'ERROR'}
    if name == 'NEGOTIATE_UNIX_FD':
        return b'NEGOTIATE_UNIX_FD', {'cmd': 'NEGOTIATE_UNIX_FD'}
    if name == 'junk':
        return b'FROBNICATE now', {'cmd': 'OTHER'}
    if name in HIBIT_WORDS:
        return HIBIT_WORDS[name], {'cmd': 'HIBIT'}
    if name in SERVER_WORDS:
        # command words only a SERVER sends, said by the client: unknown commands like any other
        return SERVER_WORDS[name], {'cmd': 'OTHER'}
    if name == 'empty':
        return b'', {'cmd': 'OTHER'}
    raise ValueError(name)


def parse_challenge(line):
    """context, id, challenge from a DATA line of DBUS_COOKIE_SHA1, or None."""
    parts = line.split(b' ', 1)
    if len(parts) != 2:
        return None
    try:
        fields = binascii.unhexlify(parts[1].strip()).split()
    except (binascii.Error, ValueError):
        return None
    if len(fields) != 3:
        return None
    return fields[0], fields[1], fields[2]


# ------------------------------------------------------------------ one sequence

def run_sequence(ctx, env, symbols, case, split_rng=None, proto_cls=MonBusProtocol, mechs=None, creds=True,
                 scripts=None, creds_tuple=None):
    """Line-by-line adaptive run with the model as online oracle.  Returns transcript."""
    mechs = mechs or ['EXTERNAL', 'DBUS_COOKIE_SHA1', 'ANONYMOUS']
    if scripts is not None:
        ScriptMech.script = list(scripts)
        ScriptMech.log = []
    s = Session(proto_cls, creds=(creds_tuple or CREDS) if creds else (0, 0, 0))
    if not creds:
        s.p._verif_no_creds = True
    model = Model(mechs, creds)
    state = {}
    transcript = []
    concrete = []
    first = True
    ctx.count('evaluations')
    ctx.count('sequences')
    script_left = list(scripts) if scripts is not None else None
    for name in symbols:
        if model.closed or model.authed:
            break
        if name == 'SCRIPT_AUTH' or name == 'SCRIPT_AUTH_resp':
            line = b'AUTH SCRIPT' + (b' ' + binascii.hexlify(b'init') if name.endswith('resp') else b'')
            sym = {'cmd': 'AUTH', 'mech': 'SCRIPT'}
        else:
            line, sym = concretise(name, state, env)
        if scripts is not None and (
                (sym['cmd'] == 'AUTH' and sym.get('mech') == 'SCRIPT' and model.state == 'auth') or
                (sym['cmd'] == 'DATA' and model.state == 'data' and sym.get('arg') != 'malformed')):
            o = script_left.pop(0) if script_left else 'REJECT'
            sym['outcome'] = {'OK': 'OK', 'CONTINUE': 'DATA', 'REJECT': 'REJECTED'}[o]
        elif scripts is not None and sym['cmd'] == 'DATA' and model.state == 'data':
            sym['outcome'] = 'ERROR'
        data = (b'\0' if first else b'') + line + b'\r\n'
        first = False
        concrete.append(line)
        if split_rng is not None:
            cuts = sorted(set(split_rng.randint(1, len(data) - 1) for _ in range(split_rng.randint(0, 3)))) \
                if len(data) > 1 else []
            if split_rng.random() < 0.2:
                cuts = list(range(1, len(data)))
            pieces = simnet.chunks_of(data, cuts)
        else:
            pieces = [data]
        allowed = model.allowed(sym)
        ctx.distinct('state_command_pairs', (model.state, name if scripts is None else 'S:' + name))
        lines = s.feed(pieces)
        auth_now = s.p.auth_calls > 0
        closed_now = s.closed
        crashed = s.crashed
        # classify the reaction
        if auth_now:
            reaction = 'AUTHENTICATED'
        elif lines:
            reaction = kind_of(lines[-1]) if not closed_now or len(lines) else 'CLOSE'
            if closed_now:
                reaction = 'CLOSE'
        elif closed_now:
            reaction = 'CLOSE'
        else:
            reaction = 'NONE'
        transcript.append((name, [kind_of(l) for l in lines], closed_now, auth_now))
        w = {'symbols': list(symbols), 'lines_sent': concrete, 'at': len(concrete) - 1, 'state': model.state,
             'mechanism': model.mech, 'rejects_so_far': model.rejects, 'allowed': sorted(allowed),
             'replies': lines, 'closed': closed_now, 'authenticated': auth_now,
             'crash': repr(crashed) if crashed else None, 'scripts': scripts}
        # --- safety monitor, independent of the model's expectations
        if auth_now and not (model.ok_pending and sym['cmd'] == 'BEGIN'):
            ctx.report('authenticated-without-acceptance',
                       'connectionAuthenticated() ran without "mechanism accepted, then BEGIN" (line %r, state %s)' % (
                           line, model.state), w, case)
            s.finish()
            return transcript
        if s.p.auth_calls > 1:
            ctx.report('authenticated-twice', 'connectionAuthenticated() ran %d times' % s.p.auth_calls, w, case)
        # --- model comparison
        ok = reaction in allowed
        if ok and reaction not in ('CLOSE', 'AUTHENTICATED'):
            # exactly one reply line
            if len(lines) != 1:
                ok = False
        if ok and reaction == 'CLOSE':
            # at the rejection limit a final REJECTED before the close is a don't-care
            extra = [l for l in lines if kind_of(l) != 'REJECTED']
            if extra:
                ok = False
        if ok and reaction == 'AUTHENTICATED' and lines:
            ok = False
        if not ok:
            ctx.report(classify(sym, model, reaction, crashed, w),
                       'after %r in state %s (mechanism %s): reaction %s %r, the protocol allows %s' % (
                           line[:60], model.state, model.mech, reaction, [l[:40] for l in lines], sorted(allowed)),
                       w, case)
            s.finish()
            return transcript
        if crashed and reaction == 'CLOSE' and 'CLOSE' in allowed and sym.get('arg') != 'malformed' \
                and sym['cmd'] not in ('BEGIN', 'HIBIT') and model.rejects < 5:
            ctx.report(None, 'bus side crashed with %r on a well-formed line %r' % (crashed, line), w, case)
        # --- content of the reply line
        for l in lines:
            k = kind_of(l)
            if k == 'OK' and l != b'OK ' + the_bus().uuid:
                ctx.report('ok-line-content', 'OK line %r does not carry the server GUID' % l, w, case)
            if k == 'REJECTED':
                offered = set(l.split()[1:])
                if offered != {m.encode() for m in mechs}:
                    ctx.report('rejected-line-content', 'REJECTED line %r does not list exactly the offered mechanisms %s'
                               % (l, sorted(mechs)), w, case)
            if k == 'DATA' and len(l) > 4:
                try:
                    binascii.unhexlify(l[5:].strip())
                except (binascii.Error, ValueError):
                    ctx.report('data-line-content', 'DATA line %r is not hex' % l, w, case)
            if k == 'OTHER':
                ctx.report('reply-outside-protocol', 'server wrote %r' % l, w, case)
        if reaction == 'DATA' and (sym.get('mech') == 'DBUS_COOKIE_SHA1' or model.mech == 'DBUS_COOKIE_SHA1'):
            state['challenge'] = parse_challenge(lines[-1])
            if state['challenge'] is None:
                ctx.report('cookie-challenge-format', 'cookie challenge %r is not "context id challenge"' % lines[-1],
                           w, case)
        elif reaction != 'ERROR':
            state.pop('challenge', None)
        model.advance(sym, reaction)
        if reaction == 'AUTHENTICATED':
            ctx.count('authentications')
        if reaction == 'CLOSE':
            ctx.count('closes')
    stale = env.stale_files()
    if stale:
        ctx.report('stale-lock-file', 'cookie lock files left behind: %r' % stale, {'symbols': list(symbols)}, case)
        for f in stale:
            import os
            os.unlink(os.path.join(env.keyring, f))
    s.finish()
    return transcript


def classify(sym, model, reaction, crashed, w):
    return None


def coalesced_run(ctx, env, symbols, ref_transcript, rng, case):
    """Non-adaptive sequence fed as one stream under a random partition; the transcript (reply kinds,
    close, authentication) must equal the line-by-line one."""
    n_used = len(ref_transcript)
    if ref_transcript and ref_transcript[-1][2] and not ref_transcript[-1][3]:
        # the reference run ended with the bus closing the connection: whatever is queued behind the fatal line in
        # the same read must be ignored, so feed the *whole* sequence (plus a would-be successful handshake)
        n_used = len(symbols)
        symbols = list(symbols) + ['AUTH_ANON', 'BEGIN']
        n_used = len(symbols)
    data = b'\0'
    for name in symbols[:n_used]:
        line, sym = concretise(name, {}, env)
        data += line + b'\r\n'
    s = Session()
    mode = rng.randrange(3)
    if mode == 0:
        cuts = []
    elif mode == 1:
        cuts = list(range(1, len(data)))
    else:
        cuts = simnet.random_partition(rng, len(data), rng.choice([2, 7, 30]))
    ctx.count('evaluations')
    ctx.count('coalesced_or_split_runs')
    lines = s.feed(simnet.chunks_of(data, cuts))
    got = ([kind_of(l) for l in lines], s.closed, s.p.auth_calls)
    want_lines = [k for (_, ks, _, _) in ref_transcript for k in ks]
    want = (want_lines, any(c for (_, _, c, _) in ref_transcript), 1 if any(a for (_, _, _, a) in ref_transcript) else 0)
    if got != want:
        ctx.report('split-dependent', 'handshake outcome depends on read splitting: %r vs line-by-line %r' % (got, want),
                   {'symbols': list(symbols[:n_used]), 'cuts': cuts[:40], 'got': got, 'want': want,
                    'crash': repr(s.crashed) if s.crashed else None}, case)
    s.finish()


ADAPTIVE = {'DATA_right', 'DATA_wrong', 'DATA_wrong_prefix', 'AUTH_COOKIE_user'}


def boundary_probes(ctx, env):
    def fresh():
        return Session()
    case = {'kind': 'boundary'}
    # first byte must be NUL
    for first in (b'A', b'\x01', b'\r'):
        s = fresh()
        lines = s.feed([first + b'AUTH ANONYMOUS\r\nBEGIN\r\n'])
        ctx.count('evaluations')
        if not s.closed or s.p.auth_calls or lines:
            ctx.report('missing-nul-not-closed', 'first byte %r: closed=%s authenticated=%s replies=%r' % (
                first, s.closed, s.p.auth_calls, lines), {'first': first}, case)
        s.finish()
    # line length
    for n, must_close in ((16384, False), (16385, True), (40000, True)):
        for terminated in (True, False):
            s = fresh()
            data = b'\0' + b'X' * n + (b'\r\n' if terminated else b'')
            lines = s.feed([data])
            ctx.count('evaluations')
            unterminated_ok = (not terminated and n <= 16384)
            if must_close and not s.closed:
                ctx.report('long-line-not-closed', 'line of %d bytes (terminated=%s) did not close the connection' % (
                    n, terminated), {'n': n, 'terminated': terminated}, case)
            if not must_close and s.closed:
                ctx.report('legal-line-closed', 'line of %d bytes closed the connection' % n, {'n': n}, case)
            if not must_close and terminated and [kind_of(l) for l in lines] != ['ERROR']:
                ctx.report(None, 'unknown 16384-byte command answered %r' % lines, {'n': n}, case)
            if s.p.auth_calls:
                ctx.report('authenticated-without-acceptance', 'long line authenticated', {'n': n}, case)
            s.finish()
        # long line arriving in pieces
        s = fresh()
        data = b'\0' + b'X' * n
        s.feed(simnet.chunks_of(data, list(range(1, len(data), 4000))))
        ctx.count('evaluations')
        if must_close and not s.closed:
            ctx.report('long-line-not-closed', 'unterminated %d bytes in pieces did not close' % n, {'n': n}, case)
        s.finish()
    ctx.count('boundary_probes', 12)


def conforming_clients(ctx, env):
    """Spec-conforming clients with acceptable credentials must be accepted; a wrong cookie never."""
    hx = binascii.hexlify
    scenarios = {
        'anonymous': ['AUTH_ANON_resp', 'BEGIN'],
        'anonymous-bare': ['AUTH_ANON', 'BEGIN'],
        'external-uid': ['AUTH_EXT_uid', 'DATA?', 'BEGIN'],
        'external-bare': ['AUTH_EXT', 'DATA?', 'BEGIN'],
        'cookie': ['AUTH_COOKIE_user', 'DATA_right', 'BEGIN'],
        'cookie-after-rejects': ['AUTH_BOGUS', 'AUTH_COOKIE_nouser', 'AUTH_COOKIE_user', 'DATA_right', 'BEGIN'],
        'cookie-wrong': ['AUTH_COOKIE_user', 'DATA_wrong', 'BEGIN'],
        'cookie-wrong-prefix': ['AUTH_COOKIE_user', 'DATA_wrong_prefix', 'BEGIN'],
        'cookie-wrong-then-right-mech': ['AUTH_COOKIE_user', 'DATA_wrong', 'AUTH_ANON', 'BEGIN'],
        'negotiate-then-begin': ['AUTH_ANON', 'NEGOTIATE_UNIX_FD', 'BEGIN'],
    }
    for name, syms in scenarios.items():
        case = {'kind': 'client', 'scenario': name}
        # 'DATA?' : a conforming client answers a DATA challenge with DATA, otherwise skips
        s_list = []
        for sname in syms:
            s_list.append(sname)
        tr = run_adaptive_client(ctx, env, s_list, case)
        authed = any(a for (_, _, _, a) in tr)
        ctx.count('conforming_client_runs')
        if name in ('cookie-wrong', 'cookie-wrong-prefix') and authed:
            ctx.report('wrong-cookie-accepted', 'a wrong cookie response was accepted', {'scenario': name}, case)
        if name not in ('cookie-wrong', 'cookie-wrong-prefix') and not authed and not ctx_has_new(ctx):
            ctx.report('conforming-client-refused', 'conforming client (%s) was not accepted: %r' % (name, tr),
                       {'scenario': name, 'transcript': tr}, case)


def peer_credential_records(ctx, env):
    """EXTERNAL with the credential records a kernel hands out: the peer's pid is 0 when its process is not visible in the
    bus's PID namespace (a client in another container on a bind-mounted socket), uid and gid are valid all the same;
    root; nobody.  A conforming client presenting them is accepted."""
    for creds in ((0, 1000, 1000), (0, 0, 0), (1, 0, 0), (4242, 65534, 65534), (2**22, 1000, 100), (7, 1000, 0)):
        for syms in (['AUTH_EXT_uid', 'DATA', 'BEGIN'], ['AUTH_EXT', 'DATA', 'BEGIN'], ['AUTH_BOGUS', 'AUTH_EXT_uid', 'DATA', 'NEGOTIATE_UNIX_FD', 'BEGIN']):
            case = {'kind': 'peer-creds', 'creds': list(creds), 'symbols': syms}
            tr = run_sequence(ctx, env, syms, case, creds_tuple=creds)
            ctx.count('peer_credential_record_runs')
            if not any(a for (_, _, _, a) in tr):
                ctx.report('conforming-client-refused', 'a client authenticating with EXTERNAL from a peer whose credential '
                           'record is (pid, uid, gid) = %r was not accepted: %r' % (creds, tr),
                           {'creds': list(creds), 'transcript': tr}, case)
                return


def ctx_has_new(ctx):
    return False


def other_users_cookie(ctx, env):
    """DBUS_COOKIE_SHA1 for a user other than the one the bus runs as (a system bus serving several users): a conforming
    client looks the cookie up in the keyring of the user it named - ~user/.dbus-keyrings - and, answering with what it
    finds there, is accepted."""
    hx = binascii.hexlify
    for k in range(3):
        case = {'kind': 'other-user', 'k': k}
        s_ = Session()
        s_.feed([b'\0'])
        lines = s_.feed([b'AUTH DBUS_COOKIE_SHA1 ' + hx(authenv.USER2.encode()) + b'\r\n'])
        ctx.count('evaluations')
        ctx.count('other_user_cookie_exchanges')
        w = {'lines': [l.decode('latin1')[:80] for l in lines]}
        try:
            context, cid, server_challenge = binascii.unhexlify(lines[-1].split(b' ', 1)[1]).split(b' ')
        except Exception:
            ctx.report('cookie-challenge-format', 'AUTH DBUS_COOKIE_SHA1 for another user answered %r' % lines, w, case)
            return
        try:
            cookie = env.read_cookie(context, cid, home=env.home2)
        except OSError:
            cookie = None
        if cookie is None:
            ctx.report('cookie-not-in-users-keyring', 'the cookie the bus refers to (context %r id %r) is not in the keyring of '
                       'the user the client named (~%s/.dbus-keyrings): a conforming client cannot answer' % (
                           context, cid, authenv.USER2), w, case)
            return
        lines = s_.feed([b'DATA ' + hx(authenv.cookie_response(server_challenge, cookie)) + b'\r\n'])
        if not lines or kind_of(lines[-1]) != 'OK':
            ctx.report('conforming-client-refused', 'the right answer computed from ~%s/.dbus-keyrings got %r' % (
                authenv.USER2, lines), w, case)
            return
        s_.feed([b'BEGIN\r\n'])
        if s_.p.auth_calls != 1:
            ctx.report('conforming-client-refused', 'BEGIN after OK did not authenticate', w, case)
            return
        s_.finish()


def keyring_left_by_a_predecessor(ctx, env):
    """The keyring as an earlier bus process with the same pid-derived context (or a crash in the middle of a cookie
    update) left it: a stale lock file, expired and recent cookies, damaged lines.  A conforming client - it answers with
    the cookie the challenge names, read from the keyring - is still accepted, and the lock is gone afterwards."""
    hx = binascii.hexlify
    import time as _time
    ctxname = A.BusCookieAuthenticator.cookieContext
    kdir = env.keyring
    os.makedirs(kdir, mode=0o700, exist_ok=True)
    os.chmod(kdir, 0o700)
    now = int(_time.time())
    states = {
        'stale-lock': {ctxname + '.lock': b'1 %d deadbeef\n' % now},
        'stale-lock-and-cookies': {ctxname + '.lock': b'', ctxname: b'7 %d 00aa\n8 %d 00bb\n' % (now, now - 5)},
        'expired-cookies': {ctxname: b'3 %d 00cc\n4 %d 00dd\n' % (now - 4000, now - 31)},
        'damaged-lines': {ctxname: b'5 %d 00ee\nnot a cookie line at all\n\n6 notatime 00ff\n' % now},
        'highest-id-first': {ctxname: b'41 %d 0011\n2 %d 0022\n' % (now, now)},
    }
    for name, files in states.items():
        case = {'kind': 'keyring-history', 'state': name}
        for f_ in os.listdir(kdir):
            os.unlink(os.path.join(kdir, f_))
        for fn, content in files.items():
            with open(os.path.join(kdir, fn), 'wb') as f:
                f.write(content)
            os.chmod(os.path.join(kdir, fn), 0o600)
        s_ = Session()
        s_.feed([b'\0'])
        lines = s_.feed([b'AUTH DBUS_COOKIE_SHA1 ' + hx(authenv.USER.encode()) + b'\r\n'])
        ctx.count('evaluations')
        ctx.count('keyring_history_exchanges')
        w = {'state': name, 'files_before': {k: v.decode('latin1') for k, v in files.items()},
             'lines': [l.decode('latin1')[:80] for l in lines]}
        if s_.crashed:
            ctx.report('keyring-history-crash', 'the bus-side connection crashed with %r on a keyring holding %s' % (
                s_.crashed, name), w, case)
            continue
        try:
            context, cid, server_challenge = binascii.unhexlify(lines[-1].split(b' ', 1)[1]).split(b' ')
            cookie = env.read_cookie(context, cid)
        except Exception:
            cookie = None
        if cookie is None:
            ctx.report('conforming-client-refused', 'with a keyring holding %s, AUTH DBUS_COOKIE_SHA1 was answered %r: no '
                       'challenge naming a cookie that is in the keyring' % (name, lines), w, case)
            continue
        lines = s_.feed([b'DATA ' + hx(authenv.cookie_response(server_challenge, cookie)) + b'\r\n'])
        if not lines or kind_of(lines[-1]) != 'OK':
            ctx.report('conforming-client-refused', 'with a keyring holding %s the right answer got %r' % (name, lines), w, case)
            continue
        s_.feed([b'BEGIN\r\n'])
        if s_.p.auth_calls != 1:
            ctx.report('conforming-client-refused', 'BEGIN after OK did not authenticate', w, case)
            continue
        s_.finish()
        if env.stale_files():
            ctx.report('lock-left-behind', 'lock file(s) %r left in the keyring after the exchange' % env.stale_files(), w, case)
            continue
        ctx.count('keyring_history_ok')
    for f_ in os.listdir(kdir):
        os.unlink(os.path.join(kdir, f_))


def pipelined_behind_begin(ctx, env):
    """After BEGIN the peer's bytes are messages, ALL of them and nothing else: a client may send its first messages in
    the same segment as BEGIN.  Message bytes containing CR LF (a serial 0x0a0d, a string with a line break, a length) are
    cut at every position, the first part travelling in the read that carries BEGIN."""
    from harness import ref_message as RM
    msgs = [
        RM.build(1, 0x0a0d, {'path': '/org/freedesktop/DBus', 'member': 'Hello', 'interface': 'org.freedesktop.DBus',
                             'destination': 'org.freedesktop.DBus'}, '', [], True),
        RM.build(1, 0x0d0a0d0a, {'path': '/a', 'member': 'M', 'interface': 'a.b', 'destination': 'org.freedesktop.DBus'},
                 's', ['line one\r\nline two\r\n'], False),
        RM.build(4, 3338, {'path': '/a', 'member': 'S', 'interface': 'a.b'}, 'ay', [[13, 10, 13, 10, 0, 13, 10]], True),
    ]
    stream = b''.join(msgs)
    prefixes = [[b'\0AUTH ANONYMOUS\r\n', b'BEGIN\r\n'], [b'\0AUTH ANONYMOUS\r\nBEGIN\r\n'], [b'\0', b'AUTH ANONYMOUS\r\nBEG', b'IN\r\n']]
    for pi, prefix in enumerate(prefixes):
        for c in range(0, len(stream) + 1):
            s_ = Session()
            reads = list(prefix[:-1]) + [prefix[-1] + stream[:c]] + ([stream[c:]] if c < len(stream) else [])
            s_.feed(reads)
            ctx.count('evaluations')
            ctx.count('pipelined_behind_begin_cuts')
            case = {'kind': 'pipelined', 'prefix': pi, 'cut': c}
            w = {'reads': [len(x) for x in reads], 'cut': c, 'tail_of_first_read': stream[max(0, c - 4):c].hex(),
                 'delivered_bytes': len(s_.p.raw_after_auth), 'sent_bytes': len(stream)}
            if s_.crashed:
                ctx.report('pipelined-crash', 'bus-side connection crashed with %r on message bytes pipelined behind BEGIN' % (
                    s_.crashed,), w, case)
                return
            if s_.p.auth_calls != 1 or s_.p.raw_after_auth != stream:
                ctx.report('pipelined-bytes-lost', 'BEGIN + the first %d message bytes in one read (ending in %s): the '
                           'authenticated peer sent %d message bytes, %d were delivered as messages%s' % (
                               c, w['tail_of_first_read'], len(stream), len(s_.p.raw_after_auth),
                               '' if s_.p.raw_after_auth == stream[:len(s_.p.raw_after_auth)] else ' (and they differ)'), w, case)
                return
            s_.finish()


def concurrent_cookie_clients(ctx, env, n_histories):
    """Several connections run the DBUS_COOKIE_SHA1 exchange against the same keyring with their steps interleaved
    (and finishing out of order, some abandoning): every conforming client - one that answers with the cookie the
    keyring holds under the id it was given - is accepted, whatever the others did meanwhile."""
    hx = binascii.hexlify
    for h in range(n_histories):
        r = random.Random('%s/c06conc/%s' % (ctx.seed, h))
        case = {'kind': 'concurrent-cookie', 'idx': h}
        n = r.randint(2, 5)
        sess = [Session() for _ in range(n)]
        state = ['new'] * n
        chal = [None] * n
        hist = []
        for s_ in sess:
            s_.feed([b'\0'])
        ctx.count('evaluations')
        while any(st not in ('done', 'gone') for st in state):
            i = r.choice([k for k in range(n) if state[k] not in ('done', 'gone')])
            s_ = sess[i]
            if state[i] == 'new':
                lines = s_.feed([b'AUTH DBUS_COOKIE_SHA1 ' + hx(authenv.USER.encode()) + b'\r\n'])
                hist.append([i, 'AUTH', [l.decode('latin1')[:60] for l in lines]])
                try:
                    context, cid, server_challenge = binascii.unhexlify(lines[-1].split(b' ', 1)[1]).split(b' ')
                except Exception:
                    ctx.report('cookie-challenge-format', 'connection %d: AUTH DBUS_COOKIE_SHA1 answered %r' % (i, lines),
                               {'history': hist}, case)
                    return
                chal[i] = (context, cid, server_challenge)
                state[i] = 'challenged'
                pending_ids = [c[1] for k, c in enumerate(chal) if c and state[k] == 'challenged']
                if len(set(pending_ids)) != len(pending_ids):
                    ctx.report('cookie-id-reused', 'two connections with an exchange in progress were given the same cookie '
                               'id: %r' % pending_ids, {'history': hist}, case)
                    return
            elif state[i] == 'challenged':
                if r.random() < 0.2:
                    s_.finish()             # the client goes away in the middle of the exchange
                    state[i] = 'gone'
                    hist.append([i, 'disconnect', []])
                    continue
                context, cid, server_challenge = chal[i]
                cookie = env.read_cookie(context, cid)
                if cookie is None:
                    ctx.report('cookie-vanished', 'connection %d: the cookie with id %r handed out for its exchange is no '
                               'longer in the keyring' % (i, cid), {'history': hist}, case)
                    return
                lines = s_.feed([b'DATA ' + hx(authenv.cookie_response(server_challenge, cookie)) + b'\r\n'])
                hist.append([i, 'DATA right', [l.decode('latin1')[:60] for l in lines]])
                if not lines or kind_of(lines[-1]) != 'OK':
                    ctx.report('conforming-client-refused', 'connection %d of %d concurrent cookie exchanges answered its '
                               'challenge with the cookie stored under its id and got %r' % (i, n, lines),
                               {'history': hist}, case)
                    return
                state[i] = 'ok'
            elif state[i] == 'ok':
                s_.feed([b'BEGIN\r\n'])
                hist.append([i, 'BEGIN', []])
                if s_.p.auth_calls != 1:
                    ctx.report('conforming-client-refused', 'connection %d: BEGIN after OK did not authenticate' % i,
                               {'history': hist}, case)
                    return
                state[i] = 'done'
                ctx.count('concurrent_cookie_authentications')
            if s_.crashed:
                ctx.report(None, 'bus-side connection crashed with %r' % s_.crashed, {'history': hist}, case)
                return
        for s_ in sess:
            s_.finish()
        ctx.count('concurrent_cookie_histories')
        ctx.distinct('nontrivial_cases', ('conc', n, tuple(x[0] for x in hist)))


def run_adaptive_client(ctx, env, syms, case):
    """Like run_sequence, but 'DATA?' is sent only when the server asked for data."""
    out = []
    # expand DATA? by probing: run once without, if the server answered DATA to the previous line, include it
    expanded = [s for s in syms if s != 'DATA?']
    tr = run_sequence(ctx, env, expanded, case)
    if 'DATA?' in syms:
        idx = syms.index('DATA?')
        prev = tr[idx - 1] if idx - 1 < len(tr) else None
        if prev and prev[1] and prev[1][-1] == 'DATA':
            expanded = [('DATA' if s == 'DATA?' else s) for s in syms]
            tr = run_sequence(ctx, env, expanded, case)
    return tr


def run(ctx):
    si, sn = ctx.shard or (0, 1)
    quick = ctx.tier == 'quick'
    L = 3 if quick else 5
    ctx.rule = ('all sequences of <= %d authentication lines over a %d-symbol alphabet (every mechanism with no/valid/'
                'bogus response, right and wrong cookie answers computed from the live challenge, BEGIN, CANCEL, ERROR, '
                'NEGOTIATE_UNIX_FD, junk, empty) against the real BusProtocol, each also re-fed coalesced / byte-wise / '
                'randomly split; all scripts of mechanism outcomes <= 3 x command sequences <= 4 with a scripted '
                'mechanism; random sequences <= 40 crossing the rejection limit; boundary probes; conforming clients. '
                'distinct_nontrivial = distinct sequences that reached a non-initial model state' % (L, len(SYMS)))
    rng = ctx.rng
    with authenv.AuthEnv() as env:
        if si == 0:
            for ln in (1, 2, 3):
                extra_ = list(SERVER_WORDS) + list(HIBIT_WORDS)
                for seq in itertools.product(SYMS + extra_, repeat=ln):
                    if not any(x in extra_ for x in seq) or (ln == 3 and seq[1] not in extra_):
                        continue
                    run_sequence(ctx, env, seq, {'kind': 'seq', 'symbols': list(seq)})
                    ctx.count('server_word_sequences')
        ctx.budget(50 if quick else 520)
        n = 0
        for ln in range(1, L + 1):
            for seq in itertools.product(SYMS, repeat=ln):
                n += 1
                if n % sn != si:
                    continue
                case = {'kind': 'seq', 'symbols': list(seq)}
                tr = run_sequence(ctx, env, seq, case)
                if any(k for (_, ks, _, _) in tr for k in ks if k in ('OK', 'DATA')):
                    ctx.distinct('nontrivial_cases', seq)
                if not (set(seq) & ADAPTIVE) and n % 3 == 0:
                    coalesced_run(ctx, env, seq, tr, rng, case)
                elif n % 7 == 0:
                    run_sequence(ctx, env, seq, dict(case, split=True), split_rng=random.Random(n))
                    ctx.count('split_adaptive_runs')
                if ctx.stop_early() or (n % 200 == 0 and ctx.out_of_time()):
                    break
            else:
                continue
            break
        ctx.exhaustive = not ctx.truncated
        ctx.note('exhaustive_bound', {'alphabet': SYMS, 'max_len': L, 'sequences': n})

        # scripted mechanisms: exact replies are determined by the script
        ssyms = ['SCRIPT_AUTH', 'SCRIPT_AUTH_resp', 'DATA', 'DATA_hex', 'DATA_badhex', 'BEGIN', 'CANCEL', 'ERROR', 'junk',
                 'AUTH_BOGUS', 'NEGOTIATE_UNIX_FD']
        scripts = [list(s) for k in range(0, 4) for s in itertools.product(['OK', 'CONTINUE', 'REJECT'], repeat=k)]
        m = 0
        ctx.budget(25 if quick else 300)
        for ln in range(1, (3 if quick else 4) + 1):
            for seq in itertools.product(ssyms, repeat=ln):
                if 'SCRIPT_AUTH' not in seq and 'SCRIPT_AUTH_resp' not in seq:
                    continue
                for sc in scripts:
                    m += 1
                    if m % sn != si:
                        continue
                    if quick and ln == 3 and m % 4:
                        continue
                    run_sequence(ctx, env, seq, {'kind': 'script', 'symbols': list(seq), 'scripts': sc},
                                 proto_cls=ScriptProtocol, mechs=['SCRIPT'], scripts=sc)
                    ctx.count('scripted_runs')
                if ctx.stop_early() or ctx.out_of_time():
                    break
        # random long sequences crossing the rejection limit
        nr = (6000 if quick else 60000) // sn
        for i in range(nr):
            r = random.Random('%s/c06rand/%s' % (ctx.seed, i * sn + si))
            weights = [3 if s in ('AUTH_BOGUS', 'ERROR', 'CANCEL', 'AUTH', 'AUTH_COOKIE_nouser') else 1 for s in SYMS]
            seq = r.choices(SYMS, weights, k=r.randint(4, 40))
            run_sequence(ctx, env, seq, {'kind': 'rand', 'idx': i * sn + si},
                         split_rng=r if r.random() < 0.5 else None)
            ctx.count('random_sequences')
            if ctx.stop_early():
                break
        if si == 0:
            boundary_probes(ctx, env)
            conforming_clients(ctx, env)
            concurrent_cookie_clients(ctx, env, 300 if ctx.tier == 'quick' else 6000)
            other_users_cookie(ctx, env)
            keyring_left_by_a_predecessor(ctx, env)
            pipelined_behind_begin(ctx, env)
            peer_credential_records(ctx, env)
        ctx.sample({'symbols': ['AUTH_COOKIE_user', 'DATA_right', 'BEGIN'],
                    'meaning': 'AUTH DBUS_COOKIE_SHA1 <hex user>; DATA <hex answer computed from the live challenge>; BEGIN'})
        ctx.sample({'symbols': ['AUTH_BOGUS'] * 6, 'expected': '5 x REJECTED then close'})
    ctx.require(ctx.counters.get('authentications', 0) > 10, 'no successful authentication observed')
    ctx.require(ctx.ndistinct('state_command_pairs') >= 3 * len(SYMS) - 6 or sn > 1,
                'only %d (state, command) pairs reached' % ctx.ndistinct('state_command_pairs'))


def replay(ctx, rp):
    case = rp['case']
    with authenv.AuthEnv() as env:
        if case['kind'] == 'seq':
            run_sequence(ctx, env, case['symbols'], case)
        elif case['kind'] == 'script':
            run_sequence(ctx, env, case['symbols'], case, proto_cls=ScriptProtocol, mechs=['SCRIPT'],
                         scripts=case['scripts'])
        elif case['kind'] == 'rand':
            r = random.Random('%s/c06rand/%s' % (rp.get('seed', 0), case['idx']))
            weights = [3 if s in ('AUTH_BOGUS', 'ERROR', 'CANCEL', 'AUTH', 'AUTH_COOKIE_nouser') else 1 for s in SYMS]
            seq = r.choices(SYMS, weights, k=r.randint(4, 40))
            run_sequence(ctx, env, seq, case, split_rng=r if r.random() < 0.5 else None)
        elif case['kind'] == 'boundary':
            boundary_probes(ctx, env)
        elif case['kind'] == 'concurrent-cookie':
            concurrent_cookie_clients(ctx, env, case['idx'] + 1)
        else:
            conforming_clients(ctx, env)
