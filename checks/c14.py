"""
C14 — built-in bus delivers each message to the right peer with the true sender.

Scripted raw clients on the real Bus (sender fields can be forged, all four message types
sent); histories of connects, disconnects, name changes, AddMatch, unicasts to unique /
well-known / unknown names and broadcasts.  Oracle: reference name table + reference match
rules give the expected recipients; unique tokens give exactly-once, no-cross-delivery and
per-(sender, destination) order; forwarded messages are compared with the originals on the wire.
"""
import random

from harness import busnet, ref_codec as R, ref_match as RMATCH, ref_message as RM, ref_names as RN
from harness.ref_codec import Variant
from harness.ref_codec import Variant as RV

PROP = 'C14'
LEVEL = 'exploration'
SHARDS = {'thorough': 16}

NAMES = ['org.verif.A', 'org.verif.B']
IFACES = ['a.b', 'a.bc']
MEMBERS = ['M', 'N']
PATHS = ['/a', '/a/b', '/a/bc', '/a/' + 'p' * 300]        # (paths have no length limit of their own)
BUS = 'org.freedesktop.DBus'

BODIES = [
    ('s', lambda t: [t]),
    ('su', lambda t: [t, 4000000000]),
    ('sv', lambda t: [t, Variant('y', 7)]),
    ('sv', lambda t: [t, Variant('u', 4000000000)]),
    ('sv', lambda t: [t, Variant('as', ['x'])]),
    ('sa{sv}', lambda t: [t, [('k', Variant('q', 9)), ('l', Variant('s', 'w'))]]),
    ('s(iy)ad', lambda t: [t, [-5, 200], [1.5, -0.0]]),
    ('sx', lambda t: [t, -2**63]),
    ('ss', lambda t: [t, 'x']),
    ('ss', lambda t: [t, 'xy']),
    ('ss', lambda t: [t, '/a/b']),
    ('sss', lambda t: [t, '/a/', 'x']),
    ('si', lambda t: [t, 7]),
    # many string arguments: index 10 is 'late' / 'other', 11 a path, 12 'later' / 'x'
    ('s' * 13, lambda t: [t, 'x'] + ['f%d' % i for i in range(2, 10)] + ['late', '/a/b', 'later']),
    ('s' * 13, lambda t: [t, 'x'] + ['f%d' % i for i in range(2, 10)] + ['other', '/b', 'x']),
    ('s' * 11, lambda t: [t, 'y'] + ['f%d' % i for i in range(2, 10)] + ['late']),
    ('', lambda t: []),
    ('', lambda t: []),
]
BODYLESS_SERIAL0 = 1 << 20

RULES = [
    {}, {'type': 'signal'}, {'interface': 'a.b'}, {'member': 'M'}, {'path': '/a/b'}, {'path_namespace': '/a'},
    {'type': 'signal', 'interface': 'a.b', 'member': 'M'}, {'path_namespace': '/a/b'}, {'type': 'method_call'},
    {'interface': 'a.bc', 'path': '/a/bc'}, {'args': {0: 'nope'}}, {'type': 'error'},
    {'args': {1: 'x'}}, {'type': 'signal', 'args': {1: 'x', 2: 'x'}}, {'arg_paths': {1: '/a/'}}, {'arg_paths': {1: '/a/b'}},
    {'member': 'M', 'args': {1: 'xy'}}, {'arg_paths': {1: '/a/b/c'}},
    # argument indices with two digits (the specification allows 0-63)
    # a rule naming a destination matches no broadcast (a broadcast has none)
    {'type': 'signal', 'destination': ':1.77'}, {'destination': 'org.verif.A', 'member': 'M'}, {'destination': ':1.1'},
    {'args': {10: 'late'}}, {'args': {1: 'x', 12: 'later'}}, {'arg_paths': {11: '/a/'}}, {'args': {63: 'last'}},
]


def rule_text(rule):
    parts = []
    for k in ('type', 'interface', 'member', 'path', 'path_namespace', 'destination'):
        if k in rule:
            parts.append("%s='%s'" % (k, rule[k]))
    for i, v in (rule.get('args') or {}).items():
        parts.append("arg%d='%s'" % (i, v))
    for i, v in (rule.get('arg_paths') or {}).items():
        parts.append("arg%dpath='%s'" % (i, v))
    return ','.join(parts)


class World:
    def __init__(self, r, n):
        self.r = r
        self.net = busnet.Net()
        self.clients = {}
        self.alive = set()
        self.names = RN.Names()
        self.by_rules = RN.Names()  # the same requests applied to the ownership rules alone, never re-seeded from the bus
        self.rules = {}            # cid -> list of rule dicts (AddMatch succeeded)
        self.issued = []
        self.announced = {}       # name -> client the bus told it owns the name
        self.tok = 0
        for _ in range(n):
            self.connect()

    def connect(self):
        cid = len(self.clients)
        c = self.net.raw_client(mech=self.r.choice([b'ANONYMOUS', b'EXTERNAL']))
        self.clients[cid] = c
        self.alive.add(cid)
        self.rules[cid] = []
        self.issued.append(c.unique)
        return cid

    def token(self):
        self.tok += 1
        return 'tok%d' % self.tok

    def drain(self):
        """New messages per live client, bus-originated traffic filtered out (but ownership announcements noted:
        the owner of a name is whoever the bus *told* so)."""
        out = {}
        for cid in sorted(self.clients):
            c = self.clients[cid]
            msgs = c.take() if cid in self.alive else []
            for m in msgs:
                if m.mtype == RM.SIGNAL and m.fields.get('interface') == BUS and m.body:
                    if m.fields.get('member') == 'NameAcquired':
                        self.announced[m.body[0]] = cid
                    elif m.fields.get('member') == 'NameLost' and self.announced.get(m.body[0]) == cid:
                        self.announced.pop(m.body[0], None)
            out[cid] = [m for m in msgs if _token_of(m)]
        for n, cid in list(self.announced.items()):
            if cid not in self.alive:
                del self.announced[n]
        return out


def _token_of(m):
    if m.body and isinstance(m.body[0], str) and m.body[0].startswith('tok'):
        return m.body[0]
    if not m.body and isinstance(m.serial, int) and m.serial >= BODYLESS_SERIAL0 and m.fields.get('destination') != BUS:
        return 'tokS%d' % m.serial        # messages without a body are told apart by a serial from a reserved range
    return None


def compare_forwarded(orig_raw, fwd, true_sender):
    """Differences between the message as sent and as delivered (sender excepted)."""
    o = RM.parse(orig_raw, strict=False)
    diffs = []
    if fwd.mtype != o.mtype:
        diffs.append(('type', o.mtype, fwd.mtype))
    if fwd.flags != o.flags:
        diffs.append(('flags', o.flags, fwd.flags))
    if fwd.serial != o.serial:
        diffs.append(('serial', o.serial, fwd.serial))
    for k in set(o.fields) | set(fwd.fields):
        if k == 'sender':
            continue
        if o.fields.get(k) != fwd.fields.get(k):
            diffs.append(('field:' + k, o.fields.get(k), fwd.fields.get(k)))
        elif o.field_types.get(k) != fwd.field_types.get(k):
            diffs.append(('fieldtype:' + k, o.field_types.get(k), fwd.field_types.get(k)))
    if fwd.fields.get('sender') != true_sender:
        diffs.append(('sender', true_sender, fwd.fields.get('sender')))
    if not R.plain_eq(o.body, fwd.body):
        diffs.append(('body', repr(o.body)[:120], repr(fwd.body)[:120]))
    elif not R.plain_eq(o.body_typed, fwd.body_typed):
        diffs.append(('body-variant-types', repr(o.body_typed)[:160], repr(fwd.body_typed)[:160]))
    return diffs


def reentrant_order(ctx):
    """In-process peers react at once: B answers a message while the bus is still passing it on, and A, on getting that
    answer, writes its next message - all inside the bus' handling of A's first read, which still holds a further
    message.  A wrote First, Second, then Third: that is the order in which B must get them."""
    for variant in range(8):
        net = busnet.Net()
        a = net.raw_client()
        b = net.raw_client()
        little = [bool(variant & 1), bool(variant & 2), bool(variant & 4)]
        mk = lambda tok, k: RM.build(RM.SIGNAL if k != 1 else RM.METHOD_CALL, a.next_serial(),
                                     {'path': '/o', 'member': 'M', 'interface': 'a.b', 'destination': b.unique},
                                     's', [tok], little[k])
        first, second, third = mk('tokFirst', 0), mk('tokSecond', 1), mk('tokThird', 2)
        state = {'b': 0, 'a': 0}

        def hook_b(kind, payload):
            if kind == 'write' and b'tokFirst' in payload and not state['b']:
                state['b'] = 1
                b.server.feed(RM.build(RM.METHOD_RETURN, b.next_serial(), {'reply_serial': 1, 'destination': a.unique},
                                       's', ['answer']))

        def hook_a(kind, payload):
            if kind == 'write' and b'answer' in payload and not state['a']:
                state['a'] = 1
                a.server.feed(third)
        b.server.t.on_event = hook_b
        a.server.t.on_event = hook_a
        a.server.feed(first + second)
        net.collect_all()
        got = [_token_of(m) for m in b.take() if _token_of(m)]
        ctx.count('evaluations')
        ctx.count('reentrant_order_cases')
        w = {'byte_orders': little, 'received_by_b': got, 'reactions_ran': dict(state)}
        if net.crashes():
            w['crash'] = repr(net.crashes()[0])
            ctx.report('crash', 'a bus-side connection crashed during re-entrant delivery: %r' % (net.crashes()[0],), w,
                       {'kind': 'reentrant-order'})
            return
        if state == {'b': 1, 'a': 1}:
            ctx.count('reentrant_reactions_ran')
        if got != ['tokFirst', 'tokSecond', 'tokThird']:
            ctx.report('order-violated', 'A wrote First, Second, Third to B; B received %r' % got, w,
                       {'kind': 'reentrant-order'})
            return


def pipelining_sender(ctx):
    """A client that sends BEGIN, its Hello and its first messages in ONE write (as pipelining clients do), the message
    bytes containing CR LF - a line break in a string, a serial of 0x0a0d: the addressee gets them all, unchanged and in
    order, and what the sender transmits later as well."""
    case = {'kind': 'pipelining-sender'}
    for variant in range(4):
        net = busnet.Net()
        dest = net.raw_client()
        little = variant % 2 == 0
        hello = RM.build(RM.METHOD_CALL, 1, {'path': '/org/freedesktop/DBus', 'member': 'Hello', 'interface': BUS,
                                             'destination': BUS}, '', [], little)
        texts = ['first line\r\nsecond line', 'plain', '\r\n', 'tail\r\n'][variant:] + ['x']
        serials = [0x0a0d, 5, 0x0d0a0d0a, 7, 9]
        msgs = [RM.build(RM.SIGNAL if i % 2 else RM.METHOD_CALL, serials[i], {'path': '/a', 'member': 'M%d' % i,
                                                                             'interface': 'a.b', 'destination': dest.unique},
                         's', [t], little) for i, t in enumerate(texts)]
        split = max(1, len(msgs) - 1)
        sender = net.raw_client(pipelined=hello + b''.join(msgs[:split]))
        for raw in msgs[split:]:
            sender.send_raw(raw)
        ctx.count('evaluations')
        ctx.count('pipelining_senders')
        got = [m for m in dest.take() if m.fields.get('member', '').startswith('M')]
        w = {'variant': variant, 'sent': [(serials[i], texts[i]) for i in range(len(msgs))],
             'delivered': [(m.serial, m.body) for m in got], 'sender_unique': sender.unique}
        if net.crashes():
            ctx.report('crash', 'bus-side connection crashed with %r on a pipelining client' % (net.crashes()[0][1],), w, case)
            return
        if [(m.serial, m.body) for m in got] != [(serials[i], [texts[i]]) for i in range(len(msgs))] or not sender.unique:
            ctx.report('pipelined-messages-damaged', 'a client that pipelined BEGIN, Hello and %d messages (message bytes '
                       'containing CR LF): delivered %r, sent %r' % (split, w['delivered'], w['sent']), w, case)
            return
        for raw, m in zip(msgs, got):
            diffs = compare_forwarded(raw, m, sender.unique)
            if diffs:
                w['diffs'] = diffs
                ctx.report(classify_diffs(diffs), 'a pipelined message was forwarded changed: %s' % (diffs[:3],), w, case)
                return


def run_history(ctx, seed, idx):
    r = random.Random('%s/c14/%s' % (seed, idx))
    case = {'kind': 'hist', 'idx': idx}
    w_ = World(r, r.choice([2, 3, 4]))
    hist = []
    ctx.count('evaluations')
    order_log = {}       # (sender cid, recipient cid) -> [tokens delivered in order]
    sent_log = {}        # (sender cid, recipient cid) -> [tokens sent in order]
    name_heavy = r.random() < 0.35       # histories that churn the ownership of one name and keep writing to it
    names = NAMES[:1] if name_heavy else NAMES
    menu = (['req'] * 6 + ['unicast-name'] * 4 + ['rel'] * 2 + ['disc', 'conn', 'unicast']) if name_heavy else \
        ['unicast', 'unicast', 'unicast', 'broadcast', 'broadcast', 'req', 'rel', 'addmatch', 'disc', 'conn', 'to-bus',
         'unicast-name']
    if name_heavy:
        while len(w_.alive) < 3:
            w_.connect()
    for step in range(r.choice([6, 12, 25])):
        alive = sorted(w_.alive)
        if not alive:
            w_.connect()
            continue
        op = r.choice(menu)
        a = r.choice(alive)
        ca = w_.clients[a]
        w = {'history': hist, 'unique': {c: w_.clients[c].unique for c in w_.clients}, 'alive': alive}
        ctx.count('steps')
        if op == 'conn':
            if len(w_.clients) < 7:
                cid = w_.connect()
                hist.append(['conn', cid])
                if len(set(w_.issued)) != len(w_.issued):
                    ctx.report('unique-name-reused', 'unique name issued twice: %r' % w_.issued, w, case)
                    return
            continue
        if op == 'disc':
            if len(alive) > 1 and r.random() < 0.5:
                hist.append(['disc', a])
                w_.names.disconnect(a)
                w_.by_rules.disconnect(a)
                ca.disconnect()
                w_.alive.discard(a)
                w_.drain()
            continue
        if op == 'req':
            name = r.choice(names)
            flags = r.choice([0, 1, 2, 3, 4, 6, 7])
            hist.append(['req', a, name, flags])
            code, ev, replaced = w_.names.request(a, name, flags)
            w_.by_rules.request(a, name, flags)
            s = ca.call('RequestName', 'su', [name, flags])
            rep = ca.reply_to(s)
            if rep is None or rep.body != [code]:
                ctx.count('name_model_resync')       # C13's subject; resynchronise from the implementation
                _resync(w_, name)
            elif replaced is not None:
                _resync(w_, name)
            w_.drain()
            continue
        if op == 'rel':
            name = r.choice(names)
            hist.append(['rel', a, name])
            w_.names.release(a, name)
            w_.by_rules.release(a, name)
            ca.call('ReleaseName', 's', [name])
            _resync(w_, name)
            w_.drain()
            continue
        if op == 'addmatch':
            rule = r.choice(RULES)
            hist.append(['addmatch', a, rule_text(rule)])
            s = ca.call('AddMatch', 's', [rule_text(rule)])
            rep = ca.reply_to(s)
            if rep is not None and rep.mtype == RM.METHOD_RETURN:
                w_.rules[a].append(rule)
            elif rep is None:
                ctx.report('addmatch-no-reply', 'AddMatch(%r) got no reply' % rule_text(rule), w, case)
                return
            else:
                ctx.count('addmatch_refused')      # the model follows the reply: a refused rule is not held
            w_.drain()
            continue
        if op == 'to-bus':
            # addressed to the bus itself: answered, never forwarded — even if somebody tried to grab the bus' name
            tok = w_.token()
            if r.random() < 0.3:
                grabber = w_.clients[r.choice(alive)]
                grabber.call('RequestName', 'su', [BUS, r.choice([0, 2, 3])])
                hist.append(['grab-bus-name', grabber.index])
                w_.drain()
            kind = r.choice(['call', 'call', 'signal', 'return', 'error'])
            hist.append(['to-bus', a, tok, kind])
            rep = True
            if kind == 'call':
                s = ca.call('GetNameOwner', 's', [tok], sender=r.choice([None, ':1.999']))
                rep = ca.reply_to(s)
            else:
                mt = {'signal': RM.SIGNAL, 'return': RM.METHOD_RETURN, 'error': RM.ERROR}[kind]
                f = {'destination': BUS}
                if mt == RM.SIGNAL:
                    f.update(path='/a', member='M', interface='a.b')
                else:
                    f['reply_serial'] = 5
                if mt == RM.ERROR:
                    f['error_name'] = 'a.b.Err'
                ca.send_raw(RM.build(mt, ca.next_serial(), f, 's', [tok]))
            got = w_.drain()
            if rep is None:
                ctx.report('bus-call-unanswered', 'a call addressed to org.freedesktop.DBus got no reply', w, case)
                return
            leaked = {c: [_token_of(m) for m in ms] for c, ms in got.items() if ms}
            if leaked:
                w['leaked'] = leaked
                ctx.report('bus-call-forwarded', 'a message addressed to the bus itself was delivered to %r' % leaked, w, case)
                return
            ctx.count('to_bus_ok')
            continue
        # ---- messages carrying a token
        tok = w_.token()
        sig, build = r.choice(BODIES)
        body = build(tok)
        mtype = r.choice([RM.METHOD_CALL, RM.METHOD_RETURN, RM.ERROR, RM.SIGNAL]) if op != 'broadcast' else RM.SIGNAL
        fields = {}
        if mtype in (RM.METHOD_CALL, RM.SIGNAL):
            fields.update(path=r.choice(PATHS), member=r.choice(MEMBERS), interface=r.choice(IFACES))
        if mtype in (RM.METHOD_RETURN, RM.ERROR):
            fields['reply_serial'] = r.choice([1, 77, 2**31, 2**32 - 1])
        if mtype == RM.ERROR:
            fields['error_name'] = 'a.b.Err'
        forged = r.choice([None, None, ':1.999', w_.clients[r.choice(sorted(w_.clients))].unique, 'org.verif.A'])
        if forged:
            fields['sender'] = forged
        flags = r.choice([0, 0, 1, 2, 3])
        dest_cid = None
        dest = None
        if op == 'unicast':
            kind = r.choice(['unique', 'unique', 'dead', 'unknown', 'self'])
            if kind == 'unique':
                dest_cid = r.choice(alive)
                dest = w_.clients[dest_cid].unique
            elif kind == 'self':
                dest_cid = a
                dest = ca.unique
            elif kind == 'dead':
                dead = [c for c in w_.clients if c not in w_.alive]
                dest = w_.clients[r.choice(dead)].unique if dead else ':1.4242'
            else:
                dest = r.choice([':1.4242', 'org.verif.Nobody'])
        elif op == 'unicast-name':
            dest = r.choice(names)
            w_.drain()
            dest_cid = w_.announced.get(dest)
            listed = w_.names.owner(dest)
            if listed != dest_cid:
                w['announced_owner'] = dest_cid
                w['listed_owner'] = listed
                ctx.report('owner-inconsistent', 'the bus told client %r it owns %s (NameAcquired) but lists client %r as '
                           'owner' % (dest_cid, dest, listed), w, case)
                return
        if dest:
            fields['destination'] = dest
        serial = ca.next_serial() + r.choice([0, 0, 1000])
        ca.serial = serial
        if not sig:
            serial = BODYLESS_SERIAL0 + int(tok[3:]) if tok[3:].isdigit() else BODYLESS_SERIAL0 + len(hist)
            tok = 'tokS%d' % serial
            ctx.count('bodyless_messages')
        # header fields in any order, now and then with a field code this version of the protocol does not define (to be
        # accepted and ignored): what the fields behind it say still holds
        r_hdr = random.Random('%s/c14hdr/%s/%d' % (seed, idx, serial))
        extra_, order_ = (), None
        if r_hdr.random() < 0.35:
            if r_hdr.random() < 0.6:
                extra_ = [(r_hdr.choice([10, 11, 77, 200]), r_hdr.choice([RV('s', 'future'), RV('u', 7), RV('ay', [1, 2])]))]
                ctx.count('messages_with_unknown_header_field')

            def order_(fl, _r=r_hdr):
                fl = list(fl)
                _r.shuffle(fl)
                return fl
            ctx.count('messages_with_shuffled_header_fields')
        raw = RM.build(mtype, serial, fields, sig, body, r.random() < 0.7, flags, extra_fields=extra_, field_order=order_)
        little_ = raw[0:1] == b'l'
        hist.append([op, a, RM.TYPE_NAMES[mtype], dest, tok, forged, flags, sig])
        if r.random() < 0.3:
            # the same read also carries, in front, a call to the bus itself in the OTHER byte order (a connection may mix
            # byte orders, and what it writes back to back arrives in one read)
            filler = RM.build(RM.METHOD_CALL, ca.next_serial(), {'path': '/org/freedesktop/DBus', 'member': 'GetId',
                                                                 'interface': BUS, 'destination': BUS}, '', [],
                              not little_, RM.NO_REPLY_EXPECTED)
            hist[-1].append('behind a %s-endian call to the bus in the same read' % ('big' if little_ else 'little'))
            ctx.count('mixed_byte_orders_in_one_read')
            raw_sent = filler + raw
        else:
            raw_sent = raw
        ca.send_raw(raw_sent)
        if w_.net.crashes():
            w['crash'] = repr(w_.net.crashes()[0])
            ctx.report(classify_crash(w_.net.crashes()[0], fields), 'bus-side connection of client %d crashed with %r while '
                       'handling %s' % (w_.net.crashes()[0][0], w_.net.crashes()[0][1], hist[-1]), w, case)
            return
        got = w_.drain()
        # expected recipients
        maxcopies = {}
        if dest:
            want = {dest_cid: 1} if (dest_cid is not None and dest_cid in w_.alive) else {}
            ctx.count('unicast_' + ('delivered' if want else 'undeliverable'))
        else:
            msgd = {'type': mtype, 'interface': fields.get('interface'), 'member': fields.get('member'),
                    'path': fields.get('path'), 'destination': None, 'body': R.plain_list(sig, body)}
            want = {}
            for cid in w_.alive:
                n = sum(1 for rule in w_.rules[cid] if RMATCH.matches(rule, msgd))
                if n:
                    want[cid] = 1
                    maxcopies[cid] = n     # the statement does not say whether several matching rules of one
                    #                        connection yield one copy or one per rule: 1..n accepted, counted
            ctx.count('broadcasts')
        w['sent'] = hist[-1]
        w['expected_recipients'] = sorted(want)
        deliveries = {cid: [m for m in ms if _token_of(m) == tok] for cid, ms in got.items()}
        if op == 'unicast-name':
            # "the connection owning the destination name at that moment" is the one the ownership rules (C13's subject)
            # make the owner after this history of requests, releases and disconnects - a bus whose own statements agree
            # with each other but not with that still hands the message to the wrong connection
            rightful = w_.by_rules.owner(dest)
            ctx.count('named_deliveries_checked_against_the_rules')
            reached = sorted(c for c, v in deliveries.items() if v)
            if reached != ([rightful] if rightful is not None and rightful in w_.alive else []):
                w['owner_by_the_rules'] = rightful
                w['delivered_to'] = reached
                ctx.report('delivered-to-non-owner', '%s to %r reached client(s) %r; after this history of requests the name '
                           'belongs to client %r' % (RM.TYPE_NAMES[mtype], dest, reached, rightful), w, case)
                return
        stray = {cid: [_token_of(m) for m in ms if _token_of(m) != tok] for cid, ms in got.items()}
        if any(stray.values()):
            ctx.report('stale-delivery', 'messages of earlier steps delivered late: %r' % stray, w, case)
            return
        for cid in sorted(w_.clients):
            n = len(deliveries.get(cid, []))
            exp = want.get(cid, 0)
            if exp and exp < n <= maxcopies.get(cid, 1):
                ctx.count('broadcast_copies_per_rule')
                n = exp
            if n != exp:
                w['delivered_to'] = {c: len(v) for c, v in deliveries.items() if v}
                w['rules'] = {c: [rule_text(x) for x in rl] for c, rl in w_.rules.items() if rl}
                ctx.report(classify_delivery(dest, n, exp, cid, w_, mtype),
                           '%s %s from client %d to %r: delivered %d times to client %d, expected %d (all deliveries %r)' % (
                               'unicast' if dest else 'broadcast', RM.TYPE_NAMES[mtype], a, dest, n, cid, exp,
                               w['delivered_to']), w, case)
                return
            for m in deliveries.get(cid, []):
                if m.malformed:
                    w['malformed'] = m.malformed
                    ctx.report(classify_malformed(m.malformed), 'the bus forwarded a message that is not well-formed: %s' %
                               m.malformed, w, case)
                    return
                diffs = compare_forwarded(raw, m, ca.unique)
                if diffs:
                    w['diffs'] = diffs
                    ctx.report(classify_diffs(diffs), 'message forwarded by the bus differs from the original: %s' % (
                        diffs[:3],), w, case)
                    return
                ctx.count('forwarded_compared')
                if forged:
                    ctx.count('forged_sender_overwritten')
            if deliveries.get(cid):
                order_log.setdefault((a, cid), []).append(tok)
        for cid in want:
            sent_log.setdefault((a, cid), []).append(tok)
        ctx.distinct('nontrivial_cases', (op, mtype, bool(forged), flags, sig, bool(want), len(want)))
    for key, toks in order_log.items():
        if toks != sent_log.get(key, []):
            ctx.report('order', 'messages from client %d to client %d arrived as %r, sent as %r' % (
                key[0], key[1], toks, sent_log.get(key)), {'history': hist}, case)
            return
    if len(set(w_.issued)) != len(w_.issued):
        ctx.report('unique-name-reused', 'unique name issued twice: %r' % w_.issued, {'history': hist}, case)
    ctx.count('names_issued', len(w_.issued))


def _resync(w_, name):
    """Re-seed the reference name table from what the bus reports (C13 decides whether that is right)."""
    obs = w_.clients[sorted(w_.alive)[0]]
    s = obs.call('ListQueuedOwners', 's', [name])
    rep = obs.reply_to(s)
    by_unique = {c.unique: cid for cid, c in w_.clients.items()}
    old = {c: f for c, f in w_.names.q.get(name, [])}
    if rep is not None and rep.mtype == RM.METHOD_RETURN:
        w_.names.q[name] = [[by_unique[u], old.get(by_unique[u], 0)] for u in rep.body[0] if u in by_unique]
        if not w_.names.q[name]:
            del w_.names.q[name]
    else:
        w_.names.q.pop(name, None)


def classify_malformed(reason):
    return None


def classify_crash(crash, fields):
    return None


def classify_delivery(dest, n, exp, cid, world, mtype):
    return None


def classify_diffs(diffs):
    return None


def run(ctx):
    si, sn = ctx.shard or (0, 1)
    quick = ctx.tier == 'quick'
    ctx.rule = ('random histories (6-25 steps) among 2-7 scripted raw clients on the real Bus: connects, disconnects, '
                'RequestName/ReleaseName, AddMatch with rules from a pool, unicasts of all 4 types to unique / well-known / '
                'dead / unknown / own names with forged, absent or stolen sender fields, flags and bodies with narrow-typed '
                'variants, broadcasts, calls addressed to the bus itself; every delivery compared on the wire with the '
                'original. distinct_nontrivial = distinct (op, type, forged, flags, body signature, deliverable, fan-out)')
    if si == 0:
        reentrant_order(ctx)
        pipelining_sender(ctx)
    n = (2500 if quick else 60000) // sn
    ctx.budget(50 if quick else 540)
    for i in range(n):
        run_history(ctx, ctx.seed, i * sn + si)
        if ctx.stop_early() or (i % 8 == 0 and ctx.out_of_time()):
            break
    ctx.sample({'history': [['addmatch', 1, "type='signal',interface='a.b'"], ['broadcast', 0, 'signal', None, 'tok1', ':1.999', 0, 's'],
                            ['unicast', 2, 'method_return', ':1.2', 'tok2', None, 1, 'sv']]})
    for k in ('unicast_delivered', 'broadcasts', 'forwarded_compared', 'forged_sender_overwritten', 'to_bus_ok'):
        ctx.require(ctx.counters.get(k, 0) > 0 or ctx.known_hits or ctx.n_new_violations(), 'never observed: ' + k)


def replay(ctx, rp):
    run_history(ctx, rp.get('seed', 0), rp['case']['idx'])
