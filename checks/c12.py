"""
C12 — a signal reaches exactly the callbacks whose match rule it satisfies.

Three levels: MessageRouter directly; a real DBusClientConnection (AddMatch / RemoveMatch calls
answered by the checker, their rule text re-parsed with the specification's quoting); proxy
signal subscriptions.  Oracle: harness.ref_match.
"""
import random

from harness import clientfix, ref_match as RMATCH, ref_message as RM
from txdbus import interface as I
from txdbus import message as MSG
from txdbus import router as ROUTER

PROP = 'C12'
LEVEL = 'exploration'
SHARDS = {'thorough': 16}

IFACES = ['a.b', 'a.bc', 'a.b.c']
MEMBERS = ['M', 'N', 'MM']
PATHS = ['/', '/a', '/a/b', '/a/bc', '/a/b/c', '/ab', '/a/b/c/d']
NAMESPACES = ['/', '/a', '/a/b', '/a/b/c', '/ab', '/x']
DESTS = [':1.1', ':1.2', 'org.verif.D']
ARGS = ['x', 'y', '', 'xy', "it's", 'a,b', 'k=v', '42', '7', 'True', 'C:\\temp\\x', "\\'q\\"]      # (some read like the text of a number or a boolean)
ARG_PATHS = ['/', '/a/', '/a/b', '/a/b/', '/a/bc', '/a/b/c', '/a/b/c/']
TYPES = ['signal', 'method_call', 'method_return', 'error']
SENDER = ':1.5'


class _Cancelled(BaseException):
    """Stands for asyncio.CancelledError / GeneratorExit: not an Exception subclass."""


def gen_rule(r, conn_level=False):
    rule = {}
    keys = ['type', 'interface', 'member', 'path', 'path_namespace', 'destination', 'args', 'arg_paths', 'sender']
    k = r.choice([0, 1, 1, 2, 2, 3, 4])
    for key in r.sample(keys, k):
        if key == 'type':
            rule['type'] = r.choice(TYPES) if not conn_level else r.choice(['signal', 'signal', 'method_call', 'error'])
        elif key == 'interface':
            rule['interface'] = r.choice(IFACES)
        elif key == 'member':
            rule['member'] = r.choice(MEMBERS)
        elif key == 'path':
            rule['path'] = r.choice(PATHS)
        elif key == 'path_namespace':
            rule['path_namespace'] = r.choice(NAMESPACES)
        elif key == 'destination':
            rule['destination'] = r.choice(DESTS)
        elif key == 'sender':
            # the statement's list of locally evaluated constraints does not include the sender: only the daemon knows
            # which connection owns a well-known name, and it has applied that constraint before it forwards a signal.
            # Every generated message comes from SENDER - a rule naming that unique name, or the well-known name SENDER
            # owns, is satisfied by all of them, and the rule *text* must still express it
            rule['sender'] = r.choice([SENDER, SENDER, 'org.verif.ServiceOwnedBySender'])
        elif key == 'args':
            rule['args'] = {r.choice([0, 0, 1, 2]): r.choice(ARGS) for _ in range(r.choice([1, 1, 2]))}
        elif key == 'arg_paths':
            rule['arg_paths'] = {r.choice([0, 0, 1]): r.choice(ARG_PATHS)}
    if 'path' in rule and 'path_namespace' in rule and r.random() < 0.7:
        del rule['path_namespace']
    return rule


def rule_kwargs(rule):
    kw = {}
    if 'type' in rule:
        kw['mtype'] = rule['type']
    for k in ('interface', 'member', 'path', 'path_namespace', 'destination', 'sender'):
        if k in rule:
            kw[k] = rule[k]
    return kw


def gen_message(r, rules, force_signal=False):
    """A message dict: either random from the pools, or derived from a rule (matching, or a near miss on one key)."""
    msg = {'type': 4 if force_signal else r.choice([4, 4, 4, 1, 2, 3]),
           'interface': r.choice(IFACES), 'member': r.choice(MEMBERS), 'path': r.choice(PATHS),
           'destination': r.choice(DESTS + [None]), 'body': gen_body(r)}
    mode = 'random'
    if rules and r.random() < 0.75:
        rule = r.choice(rules)
        # make it match ...
        if 'type' in rule and not force_signal:
            msg['type'] = RMATCH.TYPE_NAMES[rule['type']]
        for k in ('interface', 'member', 'path', 'destination'):
            if k in rule:
                msg[k] = rule[k]
        if 'path_namespace' in rule and 'path' not in rule:
            ns = rule['path_namespace']
            msg['path'] = r.choice([ns, (ns.rstrip('/') + '/x'), (ns.rstrip('/') + '/x/y')])
        body = list(msg['body'])
        for idx, val in (rule.get('args') or {}).items():
            while len(body) <= idx:
                body.append(r.choice(ARGS))
            body[idx] = val
        for idx, val in (rule.get('arg_paths') or {}).items():
            while len(body) <= idx:
                body.append(r.choice(ARGS))
            body[idx] = r.choice([val, val + 'x/y' if val.endswith('/') else val,
                                  val.rsplit('/', 2)[0] + '/' if val.count('/') > 1 else val])
        msg['body'] = body
        mode = 'match'
        # ... then possibly a near miss on exactly one constrained key
        ckeys = [k for k in rule]
        if ckeys and r.random() < 0.6:
            k = r.choice(ckeys)
            mode = 'near-miss:' + k
            if k == 'type':
                if not force_signal:
                    msg['type'] = r.choice([t for t in (1, 2, 3, 4) if t != msg['type']])
            elif k == 'interface':
                msg['interface'] = r.choice([rule[k] + 'c', rule[k] + '.c', 'x.' + rule[k]])
            elif k == 'member':
                msg['member'] = r.choice([rule[k] + 'M', rule[k].lower(), 'X'])
            elif k == 'path':
                p = rule[k]
                msg['path'] = r.choice([p.rstrip('/') + 'c', p.rstrip('/') + '/c', '/zz']) if p != '/' else '/zz'
            elif k == 'path_namespace':
                ns = rule[k]
                if ns != '/':
                    msg['path'] = r.choice([ns + 'c', ns + 'c/d', ns.rsplit('/', 1)[0] or '/', '/zz'])
            elif k == 'destination':
                msg['destination'] = r.choice([None, rule[k] + '1', ':1.99'])
            elif k == 'args':
                idx = r.choice(sorted(rule['args']))
                choice = r.randrange(4)
                b = list(msg['body'])
                if choice == 0:
                    b = b[:idx]                     # argument missing
                elif choice == 1:
                    # a non-string argument - where the rule value reads like a number, THAT number
                    v_ = rule['args'][idx]
                    b[idx] = int(v_) if v_.isdigit() else 42
                elif choice == 2:
                    b[idx] = rule['args'][idx] + 'z'
                else:
                    b = []                          # no body at all
                msg['body'] = b
            elif k == 'arg_paths':
                idx = r.choice(sorted(rule['arg_paths']))
                val = rule['arg_paths'][idx]
                b = list(msg['body'])
                choice = r.randrange(5)
                if choice == 0:
                    b = b[:idx]
                elif choice == 1:
                    b[idx] = 7
                elif choice == 2:
                    b[idx] = val.rstrip('/') + 'c'          # sibling sharing a textual prefix
                elif choice == 3:
                    b[idx] = (val.rstrip('/') + '/sub') if not val.endswith('/') else val[:-1]
                else:
                    b = []
                msg['body'] = b
    return msg, mode


def gen_body(r):
    n = r.choice([0, 0, 1, 2, 3])
    return [r.choice(ARGS + ARG_PATHS + [5, 7]) for _ in range(n)]


def body_sig(body):
    return ''.join('s' if isinstance(v, str) else 'i' for v in body)


def build_raw(msg, serial):
    fields = {}
    t = msg['type']
    if t in (1, 4):
        fields.update(path=msg['path'], member=msg['member'], interface=msg['interface'])
    else:
        fields['reply_serial'] = 99
        if t == 3:
            fields['error_name'] = 'a.b.Err'
        # replies carry no path/interface/member
    if msg.get('destination'):
        fields['destination'] = msg['destination']
    fields['sender'] = SENDER
    return RM.build(t, serial, fields, body_sig(msg['body']), msg['body'])


def effective(msg):
    """What the message really carries (replies have no path / interface / member)."""
    m = dict(msg)
    if msg['type'] in (2, 3):
        m['path'] = m['interface'] = m['member'] = None
    return m


# ------------------------------------------------------------------ level A: MessageRouter

def router_case(ctx, seed, idx):
    r = random.Random('%s/c12router/%s' % (seed, idx))
    case = {'kind': 'router', 'idx': idx}
    router = ROUTER.MessageRouter()
    nrules = r.choice([1, 2, 3, 5, 8])
    rules = {}          # our id -> dict(rule, rid, active, raises)
    events = []         # ('call', our id, msg index) / ('removed', our id)
    behaviours = {}
    state = {'msg': None}

    def make_cb(k):
        def cb(m):
            events.append(('call', k, state['msg']))
            b = behaviours.get(k)
            if b == 'raise':
                raise RuntimeError('callback %d raises' % k)
            if b == 'raise-base':
                raise _Cancelled('callback %d raises a BaseException-derived error' % k)
            if b == 'remove-self':
                if rules[k]['active']:
                    rules[k]['active'] = False
                    router.delMatch(rules[k]['rid'])
                    events.append(('removed', k, state['msg']))
            if isinstance(b, tuple) and b[0] == 'remove-other':
                o = b[1]
                if o in rules and rules[o]['active']:
                    rules[o]['active'] = False
                    router.delMatch(rules[o]['rid'])
                    events.append(('removed', o, state['msg']))
        return cb

    def add(k):
        rule = gen_rule(r)
        kw = rule_kwargs(rule)
        if rule.get('args'):
            kw['args'] = list(rule['args'].items())
        if rule.get('arg_paths'):
            kw['arg_paths'] = list(rule['arg_paths'].items())
        rid = router.addMatch(make_cb(k), **kw)
        rules[k] = {'rule': rule, 'rid': rid, 'active': True}
        b = r.random()
        if b < 0.10:
            behaviours[k] = 'raise'
        elif b < 0.15:
            behaviours[k] = 'raise-base'
        elif b < 0.25:
            behaviours[k] = 'remove-self'
        elif b < 0.33 and k > 0:
            behaviours[k] = ('remove-other', r.randrange(k))

    for k in range(nrules):
        add(k)
    # removal of rules that come later in the routing pass as well as earlier ones
    for k in range(nrules):
        if nrules > 1 and r.random() < 0.12:
            behaviours[k] = ('remove-other', r.choice([o for o in range(nrules) if o != k]))
    nmsgs = r.choice([3, 6, 12])
    history = []
    for mi in range(nmsgs):
        # history of adds / removes between messages
        if r.random() < 0.2:
            live = [k for k, v in rules.items() if v['active']]
            if live:
                k = r.choice(live)
                rules[k]['active'] = False
                router.delMatch(rules[k]['rid'])
                events.append(('removed', k, None))
                history.append(('del', k))
        if r.random() < 0.15:
            add(len(rules))
            history.append(('add', len(rules) - 1))
        msg, mode = gen_message(r, [v['rule'] for v in rules.values()])
        raw = build_raw(msg, 1000 + mi)
        m = MSG.parseMessage(raw, [])
        eff = effective(msg)
        active_before = {k for k, v in rules.items() if v['active']}
        state['msg'] = mi
        start = len(events)
        ctx.count('evaluations')
        ctx.count('router_messages')
        ctx.count('mode_' + mode.split(':')[0])
        try:
            router.routeMessage(m)
            crashed = None
        except (Exception, _Cancelled) as e:
            crashed = e
        new = events[start:]
        w = {'rules': {k: v['rule'] for k, v in rules.items()}, 'behaviours': {k: repr(b) for k, b in behaviours.items()},
             'message': eff, 'mode': mode, 'events': new, 'history': history}
        if crashed is not None:
            ctx.report(classify_crash(crashed, new), 'routeMessage raised %r (callbacks: %s)' % (
                crashed, sorted(set(repr(behaviours.get(k)) for _, k, _ in new if _ == 'call'))), w, case)
            return
        called = [k for (e, k, _) in new if e == 'call']
        removed_at = {}
        for pos, (e, k, _) in enumerate(new):
            if e == 'removed':
                removed_at.setdefault(k, pos)
        for k in active_before:
            want = RMATCH.matches(rules[k]['rule'], eff)
            n = called.count(k)
            if k in removed_at and n == 0:
                continue            # removed by another callback before its turn: either order is acceptable
            if want and n != 1:
                ctx.report(classify(rules[k]['rule'], eff, 'missing' if n == 0 else 'duplicate'),
                           'rule %r matches %r but its callback ran %d times' % (rules[k]['rule'], brief(eff), n), w, case)
                return
            if not want and n:
                ctx.report(classify(rules[k]['rule'], eff, 'surplus'),
                           'rule %r does not match %r (fails on %s) but its callback ran' % (
                               rules[k]['rule'], brief(eff), RMATCH.disagreeing_keys(rules[k]['rule'], eff)), w, case)
                return
            if want:
                ctx.count('matches')
            else:
                ctx.count('non_matches')
                for key in RMATCH.disagreeing_keys(rules[k]['rule'], eff):
                    ctx.count('miss_on_' + key.rstrip('0123456789').replace('arg0path', 'argpath'))
            ctx.distinct('nontrivial_cases', (tuple(sorted(rules[k]['rule'])), mode, want))
        # never after removal
        for pos, (e, k, _) in enumerate(new):
            if e == 'call':
                if k not in active_before:
                    ctx.report('called-after-removal', 'callback of rule %d ran although the rule had been removed' % k,
                               w, case)
                    return
                if k in removed_at and pos > removed_at[k] and behaviours.get(k) != 'remove-self':
                    ctx.report('called-after-removal', 'callback of rule %d ran after another callback removed it' % k,
                               w, case)
                    return
        if any(behaviours.get(k) in ('raise', 'raise-base') for k in called):
            ctx.count('messages_with_raising_callback')


def brief(m):
    return {k: v for k, v in m.items() if v not in (None, [])}


def classify(rule, msg, kind):
    return None


def classify_crash(exc, events):
    return None


# ------------------------------------------------------------------ level B: connection

def shared_callable(ctx):
    """One callable registered under several rules (a monitor object whose method subscribes to three things): it is
    invoked once PER matching rule - a signal satisfying two of its rules reaches it twice - and removing one of the rules
    takes away exactly that rule's invocations."""
    class Monitor:
        def __init__(self):
            self.seen = []

        def on_signal(self, m):
            self.seen.append(m.member)
    case = {'kind': 'shared-callable'}
    for style in ('function', 'bound-method'):
        router = ROUTER.MessageRouter()
        mon = Monitor()
        seen = []

        def plain(m_):
            seen.append(m_.member)
        log = seen if style == 'function' else mon.seen
        rules = [{'interface': 'a.b'}, {'member': 'M'}, {'path_namespace': '/a'}, {'interface': 'a.b', 'member': 'M'}]
        rids = []
        for rule in rules:
            kw = rule_kwargs(rule)
            rids.append(router.addMatch(plain if style == 'function' else mon.on_signal, **kw))
        signals = [{'interface': 'a.b', 'member': 'M', 'path': '/a/x'}, {'interface': 'a.b', 'member': 'N', 'path': '/b'},
                   {'interface': 'c.d', 'member': 'M', 'path': '/a'}, {'interface': 'c.d', 'member': 'N', 'path': '/zz'}]
        active = set(range(len(rules)))
        for round_ in range(len(rules) + 1):
            for sg in signals:
                msg = {'type': 4, 'interface': sg['interface'], 'member': sg['member'], 'path': sg['path'],
                       'destination': None, 'sender': SENDER, 'body': []}
                del log[:]
                router.routeMessage(MSG.parseMessage(build_raw(msg, 3000 + round_), []))
                want = sum(1 for k in active if RMATCH.matches(rules[k], effective(msg)))
                ctx.count('evaluations')
                ctx.count('shared_callable_signals')
                if len(log) != want:
                    ctx.report('shared-callable-count', 'a %s registered under %d rules was invoked %d times for a signal that '
                               'satisfies %d of its (still registered) rules' % (style, len(active), len(log), want),
                               {'style': style, 'rules': [rules[k] for k in sorted(active)], 'signal': sg}, case)
                    return
            if round_ < len(rules):
                router.delMatch(rids[round_])
                active.discard(round_)


def connection_case(ctx, seed, idx):
    r = random.Random('%s/c12conn/%s' % (seed, idx))
    case = {'kind': 'conn', 'idx': idx}
    peer = clientfix.Peer().ready()
    conn = peer.proto
    rules = {}
    calls = []
    state = {'msg': None}
    mi_state = [idx]
    serial = [500]
    # another connection of the same process holding a catch-all rule: signals delivered to the first connection are none
    # of its business
    other = None
    other_calls = []
    if idx % 3 == 0:
        other = clientfix.Peer().ready()
        other.proto.addMatch(lambda m_: other_calls.append(m_))
        for m_ in other.take():
            if m_.fields.get('member') == 'AddMatch':
                other.send(RM.build(RM.METHOD_RETURN, 499, {'reply_serial': m_.serial}))

    def answer_pending(ok=True):
        for m in peer.take():
            if m.fields.get('member') in ('AddMatch', 'RemoveMatch'):
                serial[0] += 1
                yield m
                peer.send(RM.build(RM.METHOD_RETURN, serial[0], {'reply_serial': m.serial}))

    for k in range(r.choice([1, 2, 4])):
        rule = gen_rule(r, conn_level=True)
        kw = rule_kwargs(rule)
        if rule.get('args'):
            kw['arg'] = list(rule['args'].items())
        if rule.get('arg_paths'):
            kw['arg_path'] = list(rule['arg_paths'].items())

        def cb(m, k=k):
            calls.append((k, state['msg']))
            if k % 3 == 2:
                raise (RuntimeError if mi_state[0] % 2 else _Cancelled)('raising callback')
        d = conn.addMatch(cb, **kw)
        out = clientfix.Outcome(d)
        texts = [m.body[0] for m in answer_pending() if m.fields.get('member') == 'AddMatch']
        ctx.count('evaluations')
        ctx.count('rule_texts')
        w = {'rule': rule, 'text': texts}
        if len(texts) != 1 or out.fired != 1 or out.results[0][0] != 'ok':
            ctx.report('addmatch-call', 'addMatch did not result in exactly one AddMatch call / completion: %r %r' % (
                texts, out.results), w, case)
            return
        try:
            parsed = RMATCH.rule_from_text(texts[0])
        except (RMATCH.RuleSyntaxError, ValueError) as e:
            ctx.report(classify_text(rule, texts[0]), 'AddMatch rule text %r does not parse: %s' % (texts[0], e), w, case)
            return
        if parsed != rule:
            w['parsed'] = parsed
            ctx.report(classify_text(rule, texts[0]), 'AddMatch rule text %r expresses %r, requested %r' % (
                texts[0], parsed, rule), w, case)
            return
        rules[k] = {'rule': rule, 'id': out.results[0][1], 'active': True, 'text': texts[0]}
    # a subscription the daemon refuses (rule limit reached, rule text it does not accept): the caller is told so, no rule
    # exists, and its callback never runs - whatever reaches the connection because of the other rules
    refused_calls = []
    if idx % 4 == 1:
        for j in range(r.choice([1, 2])):
            rrule = gen_rule(r, conn_level=True) if j else {}
            kw = rule_kwargs(rrule)
            if rrule.get('args'):
                kw['arg'] = list(rrule['args'].items())
            if rrule.get('arg_paths'):
                kw['arg_path'] = list(rrule['arg_paths'].items())
            out = clientfix.Outcome(conn.addMatch(lambda m_, j=j: refused_calls.append((j, state['msg'])), **kw))
            for m in peer.take():
                if m.fields.get('member') == 'AddMatch':
                    serial[0] += 1
                    peer.send(RM.build(RM.ERROR, serial[0], {'reply_serial': m.serial,
                                                             'error_name': 'org.freedesktop.DBus.Error.LimitsExceeded'},
                                       's', ['too many match rules']))
            ctx.count('evaluations')
            ctx.count('refused_subscriptions')
            if out.fired != 1 or out.results[0][0] != 'err':
                ctx.report('addmatch-call', 'addMatch refused by the daemon completed with %r' % (out.results,),
                           {'rule': rrule}, case)
                return
    for mi in range(r.choice([2, 5, 9])):
        if refused_calls:
            ctx.report('refused-rule-callback-ran', 'the callback of a subscription the daemon had refused ran %d times' % (
                len(refused_calls),), {'rules': {k: (v['rule'], v['active']) for k, v in rules.items()}}, case)
            return
        if r.random() < 0.25:
            live = [k for k, v in rules.items() if v['active']]
            if live:
                k = r.choice(live)
                d = conn.delMatch(rules[k]['id'])
                out = clientfix.Outcome(d)
                removed = [m.body[0] for m in answer_pending() if m.fields.get('member') == 'RemoveMatch']
                if removed != [rules[k]['text']] or out.fired != 1:
                    ctx.report('removematch-call', 'delMatch sent %r, expected RemoveMatch of %r' % (removed, rules[k]['text']),
                               {'rule': rules[k]['rule']}, case)
                    return
                rules[k]['active'] = False
        msg, mode = gen_message(r, [v['rule'] for v in rules.values()], force_signal=True)
        eff = effective(msg)
        state['msg'] = mi
        start = len(calls)
        ctx.count('evaluations')
        ctx.count('connection_signals')
        peer.send(build_raw(msg, 2000 + mi))
        w = {'rules': {k: (v['rule'], v['active']) for k, v in rules.items()}, 'signal': eff, 'mode': mode}
        if peer.ep.crashes:
            ctx.report('crash', 'connection crashed with %r while routing a signal' % peer.ep.crashes[0], w, case)
            return
        if other_calls:
            ctx.report('other-connection-callback', 'a signal delivered on one connection ran a callback registered on ANOTHER '
                       'connection of the process', w, case)
            return
        if other is not None:
            ctx.count('other_connection_silent')
        got = [k for k, _ in calls[start:]]
        for k, v in rules.items():
            want = v['active'] and RMATCH.matches(v['rule'], eff)
            n = got.count(k)
            if not v['active'] and n:
                ctx.report('called-after-removal', 'callback ran after its rule removal completed', w, case)
                return
            if want and n != 1:
                ctx.report(classify(v['rule'], eff, 'missing' if n == 0 else 'duplicate'),
                           'signal %r satisfies rule %r but the callback ran %d times' % (brief(eff), v['rule'], n), w, case)
                return
            if not want and n and v['active']:
                ctx.report(classify(v['rule'], eff, 'surplus'),
                           'signal %r does not satisfy rule %r (fails on %s) but the callback ran' % (
                               brief(eff), v['rule'], RMATCH.disagreeing_keys(v['rule'], eff)), w, case)
                return
            ctx.distinct('nontrivial_cases', ('conn', tuple(sorted(v['rule'])), mode, want))
    if refused_calls:
        ctx.report('refused-rule-callback-ran', 'the callback of a subscription the daemon had refused ran %d times' % (
            len(refused_calls),), {'rules': {k: (v['rule'], v['active']) for k, v in rules.items()}}, case)


def classify_text(rule, text):
    return None


# ------------------------------------------------------------------ level C: proxy subscriptions

def proxy_case(ctx, seed, idx):
    r = random.Random('%s/c12proxy/%s' % (seed, idx))
    case = {'kind': 'proxy', 'idx': idx}
    peer = clientfix.Peer().ready()
    conn = peer.proto
    declared = r.choice(['', 's', 'si', 'ss', 'i'])
    iface = I.DBusInterface('org.verif.c12.P%d' % idx, I.Signal('Changed', declared), I.Signal('Other', 's'), noRegister=True)
    out = clientfix.Outcome(conn.getRemoteObject('org.verif.Svc', '/a/b', iface))
    proxy = out.results[0][1]
    got = []
    d = proxy.notifyOnSignal('Changed', lambda *a: got.append(a))
    sub = clientfix.Outcome(d)
    texts = []
    for m in peer.take():
        if m.fields.get('member') == 'AddMatch':
            texts.append(m.body[0])
            peer.send(RM.build(RM.METHOD_RETURN, 77, {'reply_serial': m.serial}))
    ctx.count('evaluations')
    want_rule = {'type': 'signal', 'path': '/a/b', 'member': 'Changed', 'interface': iface.name}
    if len(texts) != 1 or RMATCH.rule_from_text(texts[0]) != want_rule or sub.fired != 1:
        ctx.report('proxy-subscription-rule', 'notifyOnSignal sent rule %r, expected %r' % (texts, want_rule), {}, case)
        return
    for k in range(6):
        sig = r.choice([declared, declared, 's', 'si', '', 'i', 'ss', 'is'])
        body = [('v%d' % k) if c == 's' else k for c in sig]
        path = r.choice(['/a/b', '/a/b', '/a/bc', '/a'])
        member = r.choice(['Changed', 'Changed', 'Other'])
        ifn = r.choice([iface.name, iface.name, iface.name + 'x'])
        start = len(got)
        peer.send(RM.build(RM.SIGNAL, 3000 + k, {'path': path, 'member': member, 'interface': ifn, 'sender': ':1.9'},
                           sig, body, r.random() < 0.8))
        ctx.count('evaluations')
        ctx.count('proxy_signals')
        want = (path == '/a/b' and member == 'Changed' and ifn == iface.name and sig == declared)
        new = got[start:]
        w = {'declared': declared, 'signal': {'path': path, 'member': member, 'interface': ifn, 'signature': sig,
                                              'body': body}, 'callback_args': [list(a) for a in new]}
        if want and new != [tuple(body)]:
            ctx.report('proxy-signal-args', 'declared-signature signal delivered as %r, expected one call with %r' % (
                new, body), w, case)
            return
        if not want and new:
            ctx.report('proxy-signal-surplus', 'callback ran for a signal with %s' % (
                'another signature' if sig != declared else 'another path/member/interface'), w, case)
            return
        ctx.distinct('nontrivial_cases', ('proxy', declared, sig, want))
    # a proxy on ANOTHER connection of the process subscribes as well (rule ids are per connection, so both hold the same
    # id) and a second proxy on the same connection too: cancelling one subscription must neither cancel nor keep the others
    peer2 = clientfix.Peer().ready()
    proxy2 = clientfix.Outcome(peer2.proto.getRemoteObject('org.verif.Svc', '/a/b', iface)).results[0][1]
    got2 = []
    sub2 = clientfix.Outcome(proxy2.notifyOnSignal('Changed', lambda *a: got2.append(a)))
    for m in peer2.take():
        if m.fields.get('member') == 'AddMatch':
            peer2.send(RM.build(RM.METHOD_RETURN, 79, {'reply_serial': m.serial}))
    proxy3 = clientfix.Outcome(conn.getRemoteObject('org.verif.Svc', '/a/b', iface)).results[0][1]
    got3 = []
    sub3 = clientfix.Outcome(proxy3.notifyOnSignal('Changed', lambda *a: got3.append(a)))
    for m in peer.take():
        if m.fields.get('member') == 'AddMatch':
            peer.send(RM.build(RM.METHOD_RETURN, 80, {'reply_serial': m.serial}))
    body = [('z' if c == 's' else 1) for c in declared]

    def fire(p_, serial_):
        p_.send(RM.build(RM.SIGNAL, serial_, {'path': '/a/b', 'member': 'Changed', 'interface': iface.name}, declared, body))

    def cancel(px, sub_, p_):
        px.cancelSignalNotification(sub_.results[0][1])
        n_ = 0
        for m in p_.take():
            if m.fields.get('member') == 'RemoveMatch':
                n_ += 1
                p_.send(RM.build(RM.METHOD_RETURN, 78, {'reply_serial': m.serial}))
        return n_
    if sub2.fired != 1 or sub3.fired != 1:
        ctx.report('proxy-subscription-rule', 'further subscriptions did not complete', {}, case)
        return
    order = r.choice([(1, 2, 3), (2, 1, 3), (3, 1, 2), (1, 3, 2)])
    live = {1, 2, 3}
    subs = {1: (proxy, sub, peer, got), 2: (proxy2, sub2, peer2, got2), 3: (proxy3, sub3, peer, got3)}
    for which in order:
        px, sb, pr, _ = subs[which]
        removed = cancel(px, sb, pr)
        live.discard(which)
        ctx.count('evaluations')
        ctx.count('proxy_cancellations')
        w = {'cancel_order': list(order), 'cancelled': which, 'declared': declared}
        if removed != 1:
            ctx.report('removematch-call', 'cancelSignalNotification of subscription %d sent %d RemoveMatch calls' % (
                which, removed), w, case)
            return
        marks = {k_: len(v_[3]) for k_, v_ in subs.items()}
        fire(peer, 3990 + which)
        fire(peer2, 3995 + which)
        for k_, (_, _, _, g_) in subs.items():
            n_new = len(g_) - marks[k_]
            if k_ in live and n_new != 1:
                ctx.report('live-subscription-lost', 'after subscription %d was cancelled, the still subscribed callback %d '
                           'ran %d times for a matching signal on its connection' % (which, k_, n_new), w, case)
                return
            if k_ not in live and n_new:
                ctx.report('called-after-removal', 'proxy callback %d ran after its cancelSignalNotification completed' % k_,
                           w, case)
                return


def run(ctx):
    si, sn = ctx.shard or (0, 1)
    quick = ctx.tier == 'quick'
    ctx.rule = ('rule sets over {type, interface, member, path, path_namespace, destination, argN, argNpath} from small '
                'pools; messages matching, near-miss on exactly one constrained key (prefix-sharing sibling paths, root '
                'namespace, missing / non-string / extra arguments, trailing-slash argument paths), add/remove histories '
                'incl. callbacks that raise or remove rules during dispatch; at MessageRouter level (all 4 message '
                'types), through a real connection (rule text re-parsed), and through proxy subscriptions. '
                'distinct_nontrivial = distinct (constraint key set, message mode, expected verdict)')
    n = (2500 if quick else 60000) // sn
    ctx.budget(40 if quick else 500)
    for i in range(n):
        router_case(ctx, ctx.seed, i * sn + si)
        if i % 3 == 0:
            connection_case(ctx, ctx.seed, i * sn + si)
        if i % 10 == 0:
            proxy_case(ctx, ctx.seed, i * sn + si)
        if ctx.stop_early() or (i % 64 == 0 and ctx.out_of_time()):
            break
    if si == 0:
        shared_callable(ctx)
    ctx.sample({'rule': {'path_namespace': '/a/b', 'args': {0: 'x'}}, 'near_miss_signal': {'path': '/a/bc', 'body': ['x']}})
    ctx.sample({'rule': {'arg_paths': {0: '/a/b/'}}, 'matching_args': ['/a/b/', '/a/b/c', '/a/', '/'], 'non_matching': ['/a/b', '/a/bc']})
    ctx.require(ctx.counters.get('matches', 0) > 100, 'too few matching pairs')
    ctx.require(ctx.counters.get('non_matches', 0) > 100, 'too few near misses')
    ctx.require(ctx.counters.get('messages_with_raising_callback', 0) > 5 or ctx.known_hits, 'raising callbacks not exercised')


def replay(ctx, rp):
    case = rp['case']
    seed = rp.get('seed', 0)
    if case['kind'] == 'shared-callable':
        shared_callable(ctx)
        return
    {'router': router_case, 'conn': connection_case, 'proxy': proxy_case}[case['kind']](ctx, seed, case['idx'])
