"""
C07 — the client speaks DBus only after the server's OK and never stalls in the handshake.

Real DBusClientConnection + ClientAuthenticator on simulated UNIX / non-UNIX transports.
(a) every sequence of server lines up to a bound; history monitors S1..S6 phrased on the
    transport log only;
(b) complete handshakes against a spec-conforming reference server for every subset of
    accepted mechanisms x both answers to NEGOTIATE_UNIX_FD x both transports.
"""
import binascii
import hashlib
import itertools
import random

from harness import authenv, simnet
from txdbus import authentication as A
from txdbus import client as C

PROP = 'C07'
LEVEL = 'exploration'
SHARDS = {'thorough': 16}

PREFERENCE = [b'EXTERNAL', b'DBUS_COOKIE_SHA1', b'ANONYMOUS']
CLIENT_COMMANDS = (b'AUTH', b'DATA', b'BEGIN', b'CANCEL', b'ERROR', b'NEGOTIATE_UNIX_FD')
GUID = b'0123456789abcdef0123456789abcdef'
COOKIE_CTX = b'verif_ctx'
COOKIE_ID = b'77'
COOKIE = b'00112233445566778899aabbccddeeff0011223344556677'
SERVER_CHALLENGE = b'feedface0123'

SYMS = ['REJECTED', 'REJECTED_mechs', 'ERROR', 'ERROR_text', 'OK_guid', 'OK', 'OK_badhex', 'OK_spaced', 'DATA', 'DATA_cookie',
        'DATA_junkhex', 'DATA_cookie_noid', 'DATA_cookie_noctx', 'AGREE_UNIX_FD', 'junk', 'junk_lower', 'empty']

LINE = {
    'REJECTED': b'REJECTED',
    'REJECTED_mechs': b'REJECTED EXTERNAL DBUS_COOKIE_SHA1 ANONYMOUS',
    'ERROR': b'ERROR',
    'ERROR_text': b'ERROR "not now"',
    'OK_guid': b'OK ' + GUID,
    'OK': b'OK',
    'OK_badhex': b'OK zz',
    'OK_spaced': b'OK 0123456789abcdef 0123456789abcdef',
    'DATA': b'DATA',
    'DATA_cookie': b'DATA ' + binascii.hexlify(COOKIE_CTX + b' ' + COOKIE_ID + b' ' + SERVER_CHALLENGE),
    'DATA_junkhex': b'DATA ' + binascii.hexlify(b'what is this'),
    # well-formed challenges the client cannot answer: the keyring file has no such id / there is no such keyring file
    'DATA_cookie_noid': b'DATA ' + binascii.hexlify(COOKIE_CTX + b' 999999 ' + SERVER_CHALLENGE),
    'DATA_cookie_noctx': b'DATA ' + binascii.hexlify(b'no_such_context ' + COOKIE_ID + b' ' + SERVER_CHALLENGE),
    'AGREE_UNIX_FD': b'AGREE_UNIX_FD',
    # command words only a CLIENT sends, said by the server (an echoing, buggy or hostile peer): outside the protocol
    'srv_BEGIN': b'BEGIN',
    'srv_BEGIN_arg': b'BEGIN ' + GUID,
    'srv_AUTH': b'AUTH EXTERNAL 31303030',
    'srv_CANCEL': b'CANCEL',
    'srv_NEGOTIATE': b'NEGOTIATE_UNIX_FD',
    # server lines with bytes >= 0x80 in or next to the command word: none of them is a protocol line.  The unchanged
    # client lets a UnicodeDecodeError escape dataReceived for some of them - the reactor then drops the connection, which
    # is a close; that exception is a don't-care HERE (and only here), everything else is judged as for any other line
    'hb_OK_mid': b'O\xffK ' + GUID,
    'hb_OK_lead': b'\x80OK ' + GUID,
    'hb_OK_utf8': b'OK\xc3\xa9 ' + GUID,
    'hb_AGREE': b'AGREE_UNIX_FD\xff',
    'hb_ERROR': b'ERR\xe9OR',
    'hb_REJECTED': b'REJECTED\xfe EXTERNAL',
    'hb_DATA': b'\xc2\xa0DATA',
    'hb_alone': b'\xff\xfe',
    'junk': b'HELLO there',
    'junk_lower': b'ok ' + GUID,
    'empty': b'',
}
HIBIT_WORDS = ['hb_OK_mid', 'hb_OK_lead', 'hb_OK_utf8', 'hb_AGREE', 'hb_ERROR', 'hb_REJECTED', 'hb_DATA', 'hb_alone']
CLIENT_WORDS = ['srv_BEGIN', 'srv_BEGIN_arg', 'srv_AUTH', 'srv_CANCEL', 'srv_NEGOTIATE']
IN_PROTOCOL = {'REJECTED', 'REJECTED_mechs', 'ERROR', 'ERROR_text', 'OK_guid', 'DATA', 'DATA_cookie', 'DATA_junkhex',
               'DATA_cookie_noid', 'DATA_cookie_noctx',
               'AGREE_UNIX_FD'}


class MonClient(C.DBusClientConnection):
    def __init__(self):
        self.auth_calls = 0

    def connectionAuthenticated(self):
        self.auth_calls += 1
        C.DBusClientConnection.connectionAuthenticated(self)


class ClientSession:
    def __init__(self, unix, proto_cls=None):
        self.f = C.DBusClientFactory()
        self.f.getConnection().addErrback(lambda e: None)
        self.p = (proto_cls or MonClient)()
        self.p.factory = self.f
        self.ep = simnet.Endpoint(self.p, unix=unix, name='client').connect()
        self.consumed = 0
        self.lines = []          # handshake lines written so far (without CRLF)
        self.begun = False
        self.binary = b''
        self.garbage = None
        self.nul_seen = False
        self._partial = b''

    def collect(self):
        """Parse what the client wrote since the last call.  Returns the list of new lines."""
        out = self.ep.t.written()
        new = out[self.consumed:]
        self.consumed = len(out)
        fresh = []
        if not self.nul_seen and new:
            if new[:1] != b'\0':
                self.garbage = new[:20]
            self.nul_seen = True
            new = new[1:]
        if self.begun:
            self.binary += new
            return fresh
        data = self._partial + new
        while True:
            i = data.find(b'\r\n')
            if i < 0:
                break
            line, data = data[:i], data[i + 2:]
            fresh.append(line)
            self.lines.append(line)
            if line == b'BEGIN':
                self.begun = True
                self.binary += data
                data = b''
                break
        self._partial = data
        return fresh

    @property
    def closed(self):
        return self.ep.t.disconnecting or bool(self.ep.lost)

    def finish(self):
        if not self.ep.lost:
            self.ep.lose()


def mech_of(line):
    parts = line.split()
    if len(parts) >= 2 and parts[0] == b'AUTH':
        return parts[1]
    return None


def check_cookie_answer(line):
    """True if `line` is the right DATA answer to the DATA_cookie challenge."""
    parts = line.split(b' ', 1)
    if parts[0] != b'DATA' or len(parts) != 2:
        return False
    try:
        cc, digest = binascii.unhexlify(parts[1].strip()).split()
    except (binascii.Error, ValueError):
        return False
    want = hashlib.sha1(SERVER_CHALLENGE + b':' + cc + b':' + COOKIE).hexdigest().encode()
    return digest == want


def run_lines(ctx, symbols, unix, case, split_rng=None):
    """Feed server lines one by one; evaluate S1..S6 after each."""
    s = ClientSession(unix)
    first = s.collect()
    ctx.count('evaluations')
    ctx.count('sequences')
    w = {'symbols': list(symbols), 'unix': unix}
    hist = []          # (server line fed, [client lines written], closed, auth_calls)
    ok_read = False            # a well-formed OK <hex guid> has been read
    ok_index = None
    negotiate_after_ok = False
    answer_after_negotiate = False
    offered = []
    exhausted_at = None

    def violation(key, what):
        w['history'] = [(a, b, c, d) for a, b, c, d in hist]
        w['initial_lines'] = first
        ctx.report(key, what, dict(w), case)

    # initial output: NUL + first AUTH
    if s.garbage is not None:
        violation('no-initial-nul', 'client did not start with a NUL byte: %r' % s.garbage)
    for l in first:
        m = mech_of(l)
        if m:
            offered.append(m)
    if not first and not s.closed:
        violation('no-initial-auth', 'client wrote nothing on connect')
    for idx, name in enumerate(symbols):
        line = LINE[name]
        data = line + b'\r\n'
        if split_rng is not None and len(data) > 1:
            cuts = sorted(set(split_rng.randint(1, len(data) - 1) for _ in range(split_rng.randint(0, 2))))
            if split_rng.random() < 0.35:
                cuts = sorted(set(cuts + [len(data) - 1]))          # between the CR and the LF
            if split_rng.random() < 0.15:
                cuts = list(range(1, len(data)))
            pieces = simnet.chunks_of(data, cuts)
        else:
            pieces = [data]
        was_closed = s.closed
        was_authed = s.p.auth_calls > 0
        for pc in pieces:
            s.ep.feed(pc)
        new = s.collect()
        hist.append((line, new, s.closed, s.p.auth_calls))
        ctx.distinct('state_pairs', (name, unix, was_closed, ok_read, tuple(offered[-1:]), negotiate_after_ok))
        if s.ep.crashes and name in HIBIT_WORDS and isinstance(s.ep.crashes[0], UnicodeError) and not new:
            ctx.count('hibit_lines_dropped_by_the_reactor')
            break
        if s.ep.crashes:
            violation(None, 'client crashed with %r on server line %r' % (s.ep.crashes[0], line))
            break
        if was_closed:
            # S6: nothing further is written after the close
            if new or s.ep.t.after_close_writes:
                violation('write-after-close', 'client wrote %r after closing the connection' % (new,))
                break
            continue
        # S3: only handshake lines before BEGIN
        for l in new:
            if not l.startswith(CLIENT_COMMANDS) or (l.split(b' ', 1)[0] not in CLIENT_COMMANDS):
                violation('non-handshake-output', 'client wrote %r during the handshake' % l)
        # what the server line means for the monitors
        if name in ('AGREE_UNIX_FD', 'ERROR', 'ERROR_text') and negotiate_after_ok:
            answer_after_negotiate = True
        if name == 'OK_guid':
            ok_read = True
            ok_index = idx
        mech_at_read = offered[-1] if offered else None
        if name == 'DATA_cookie' and mech_at_read == b'DBUS_COOKIE_SHA1':
            answered = False
            for l in new:
                if l.startswith(b'DATA'):
                    answered = True
                    ctx.count('cookie_answers')
                    if not check_cookie_answer(l):
                        violation('cookie-answer-wrong', 'client answered the cookie challenge with a wrong response %r' % l)
            if not answered and not s.closed and not any(k_ == 'DATA_cookie' for k_ in symbols[:idx]):
                # the cookie is in the keyring and this is the first challenge of this mechanism: a client that gives up
                # here cannot complete against a server that accepts only this mechanism
                violation('cookie-challenge-not-answered', 'client answered the first DBUS_COOKIE_SHA1 challenge with %r '
                          'although the cookie is in its keyring' % (new,))
        # track what the client did in reaction
        for l in new:
            m = mech_of(l)
            if m:
                offered.append(m)
            if l == b'NEGOTIATE_UNIX_FD' and ok_read:
                negotiate_after_ok = True
                answer_after_negotiate = False
        # S1 / S2
        if b'BEGIN' in new:
            ctx.count('begins')
            if not ok_read:
                violation('begin-without-ok', 'BEGIN written although no "OK <guid>" was read (last line %r)' % line)
                break
            if unix and not (negotiate_after_ok and answer_after_negotiate):
                violation('begin-without-fd-negotiation', 'UNIX transport: BEGIN without an answered NEGOTIATE_UNIX_FD')
                break
        # S3: authenticated iff BEGIN written
        if (s.p.auth_calls > 0) != s.begun:
            violation('auth-begin-mismatch', 'connectionAuthenticated ran=%s but BEGIN written=%s' % (
                s.p.auth_calls, s.begun))
            break
        if s.p.auth_calls > 1:
            violation('authenticated-twice', 'connectionAuthenticated ran %d times' % s.p.auth_calls)
        # S4: preference order, none twice
        if offered != PREFERENCE[:len(offered)]:
            violation('mechanism-order', 'mechanisms offered %r are not a prefix of the preference order' % offered)
            break
        if s.begun:
            break
        # S5: bounded progress — answered or closed, and no flood
        if not new and not s.closed:
            violation(classify_stall(name, offered), 'client neither answered nor closed after server line %r '
                      '(current mechanism %r)' % (line, offered[-1] if offered else None))
            break
        if len(new) > 2:
            violation('line-flood', 'client wrote %d lines in answer to one' % len(new))
            break
        # S6: outside the protocol / exhaustion => close
        if name not in IN_PROTOCOL and not s.closed:
            violation('no-close-on-protocol-violation', 'server line %r is outside the protocol but the client stayed' % line)
            break
        if name in ('REJECTED', 'REJECTED_mechs') and len(offered) == 3 and not any(mech_of(l) for l in new) \
                and not s.closed:
            violation('no-close-on-exhaustion', 'all mechanisms rejected but the connection stays open')
            break
        if s.closed and new and name not in IN_PROTOCOL:
            # closing is right; writing something first is a don't-care
            pass
    if s.begun:
        # binary bytes after BEGIN: must be the Hello call and nothing before it
        ctx.count('authenticated_runs')
    s.finish()
    return hist


def classify_stall(name, offered):
    return None


def coalesced_lines(ctx, symbols, unix, case, hist):
    """The same server lines, up to the one that ended the line-by-line run, delivered in ONE read (a server may
    pipeline): the client must write exactly the same lines and end in the same state - in particular nothing after the
    line that made it close."""
    n = len(hist)
    if n < 2:
        return
    def norm_(l):
        # the answer to the cookie challenge carries a random client challenge: compare "right answer", not bytes
        return b'DATA <right cookie answer>' if l.startswith(b'DATA ') and check_cookie_answer(l) else l
    ref_out = [norm_(l) for (_, new, _, _) in hist for l in new]
    ref_closed, ref_auth = hist[-1][2], hist[-1][3]
    s = ClientSession(unix)
    s.collect()
    ctx.count('evaluations')
    ctx.count('coalesced_sequences')
    s.ep.feed(b''.join(LINE[name] + b'\r\n' for name in symbols[:n]))
    out = [norm_(l) for l in s.collect()]
    w = {'symbols': list(symbols[:n]), 'unix': unix, 'one_read_output': out, 'line_by_line_output': ref_out,
         'one_read_closed': s.closed, 'line_by_line_closed': ref_closed}
    if s.ep.crashes:
        ctx.report(None, 'client crashed with %r when the server lines arrived in one read' % (s.ep.crashes[0],), w, case)
    elif s.ep.t.after_close_writes or (ref_closed and out != ref_out):
        ctx.report('write-after-close', 'server lines in one read: the client went on after the line that made it close '
                   '(wrote %r, line by line it writes %r)' % (out, ref_out), w, case)
    elif out != ref_out or s.closed != ref_closed or s.p.auth_calls != ref_auth:
        ctx.report('segmentation-dependent', 'server lines in one read: client wrote %r (closed=%s, authenticated=%s), line '
                   'by line %r (closed=%s, authenticated=%s)' % (out, s.closed, s.p.auth_calls, ref_out, ref_closed,
                                                                 ref_auth), w, case)
    s.finish()


# ------------------------------------------------------------------ (b) reference server

class RefServer:
    """Spec-conforming server accepting the mechanisms in `accept`."""

    def __init__(self, accept, agree_fd, external_style='data'):
        self.accept = set(accept)
        self.agree_fd = agree_fd
        self.state = 'auth'
        self.mech = None
        self.external_style = external_style
        self.rejects = 0
        self.closed = False
        self.authed = False
        self.fd_negotiated = False

    def reject(self):
        self.state = 'auth'
        self.mech = None
        self.rejects += 1
        return b'REJECTED ' + b' '.join(m for m in PREFERENCE if m in self.accept)

    def line(self, l):
        parts = l.split(b' ')
        cmd = parts[0]
        if cmd == b'BEGIN':
            if self.state == 'begin':
                self.authed = True
                return None
            self.closed = True
            return None
        if self.state == 'doomed':
            # the challenge of a mechanism this server was never going to accept has been answered: reject now
            return self.reject()
        if self.state == 'auth':
            if cmd == b'AUTH':
                if len(parts) >= 2 and parts[1] == b'EXTERNAL' and parts[1] not in self.accept and \
                        self.external_style == 'data':
                    # like a daemon without peer credentials: challenge first, reject afterwards
                    self.state = 'doomed'
                    return b'DATA'
                if len(parts) < 2 or parts[1] not in self.accept:
                    return self.reject()
                self.mech = parts[1]
                if self.mech == b'ANONYMOUS':
                    self.state = 'begin'
                    return b'OK ' + GUID
                if self.mech == b'EXTERNAL':
                    if self.external_style == 'ok' :
                        self.state = 'begin'
                        return b'OK ' + GUID
                    self.state = 'data'
                    return b'DATA'
                if self.mech == b'DBUS_COOKIE_SHA1':
                    if len(parts) < 3:
                        return self.reject()
                    self.state = 'data'
                    return LINE['DATA_cookie']
            if cmd == b'ERROR':
                return self.reject()
            return b'ERROR "unexpected"'
        if self.state == 'data':
            if cmd == b'DATA':
                if self.mech == b'EXTERNAL':
                    self.state = 'begin'
                    return b'OK ' + GUID
                if self.mech == b'DBUS_COOKIE_SHA1':
                    if check_cookie_answer(l):
                        self.state = 'begin'
                        return b'OK ' + GUID
                    return self.reject()
            if cmd in (b'CANCEL', b'ERROR'):
                return self.reject()
            return b'ERROR "unexpected"'
        if self.state == 'begin':
            if cmd == b'NEGOTIATE_UNIX_FD':
                if self.agree_fd is True:
                    self.fd_negotiated = True
                    return b'AGREE_UNIX_FD'
                return b'ERROR' if self.agree_fd == 'bare' else b'ERROR "no descriptor passing here"'
            if cmd in (b'CANCEL', b'ERROR'):
                return self.reject()
            return b'ERROR "unexpected"'


def full_handshake(ctx, accept, agree_fd, unix, external_style, case, split_rng=None):
    try:
        s = ClientSession(unix)
    except Exception as e:
        # raised out of connectionMade: the transport would log it and drop the connection - no handshake
        ctx.count('evaluations')
        ctx.report('client-raised-on-connect', 'the client raised %r when the connection was made (server accepting %s): no '
                   'mechanism was offered' % (e, sorted(m.decode() for m in accept)),
                   {'accept': sorted(m.decode() for m in accept), 'unix': unix}, case)
        return
    srv = RefServer(accept, agree_fd, external_style)
    ctx.count('evaluations')
    ctx.count('full_handshakes')
    pending = list(s.collect())
    transcript = []
    steps = 0
    while pending and steps < 60 and not srv.closed and not srv.authed:
        l = pending.pop(0)
        steps += 1
        reply = srv.line(l)
        transcript.append(('C', l))
        if reply is not None:
            transcript.append(('S', reply))
            data = reply + b'\r\n'
            if split_rng is not None:
                cuts = sorted(set(split_rng.randint(1, len(data) - 1) for _ in range(split_rng.randint(0, 2))))
                for pc in simnet.chunks_of(data, cuts):
                    s.ep.feed(pc)
            else:
                s.ep.feed(data)
            pending.extend(s.collect())
        if s.closed:
            break
    w = {'accept': sorted(m.decode() for m in accept), 'agree_fd': agree_fd, 'unix': unix,
         'external_style': external_style, 'transcript': transcript, 'client_closed': s.closed,
         'server_authenticated': srv.authed, 'client_authenticated': s.p.auth_calls,
         'crash': repr(s.ep.crashes[0]) if s.ep.crashes else None}
    if accept:
        ok = srv.authed and s.p.auth_calls == 1 and not s.closed
        if not ok:
            ctx.report(classify_incomplete(w), 'handshake against a conforming server accepting %s (fd negotiation '
                       'answered %s, %s transport) did not complete' % (
                           w['accept'], 'AGREE' if agree_fd is True else 'ERROR', 'UNIX' if unix else 'TCP'), w, case)
        else:
            ctx.count('handshakes_completed')
            # the first binary bytes must be a message (Hello), i.e. start with an endian flag
            if not s.binary[:1] in (b'l', b'B'):
                ctx.report('no-hello-after-begin', 'after BEGIN the client wrote %r' % s.binary[:16], w, case)
    else:
        if srv.authed or s.p.auth_calls or not s.closed:
            ctx.report('no-close-on-exhaustion', 'server accepts nothing, yet client authenticated=%s closed=%s' % (
                s.p.auth_calls, s.closed), w, case)
    ctx.distinct('nontrivial_cases', ('full', tuple(sorted(accept)), agree_fd, unix, external_style))
    s.finish()


class _Getpass:
    """Stands for the process environment as the getpass module reports it."""

    def __init__(self, outcome):
        self.outcome = outcome

    def getuser(self):
        if isinstance(self.outcome, BaseException):
            raise self.outcome
        return self.outcome


def login_name_environments(ctx):
    """The handshake in a process whose login name is unusable - a uid without passwd entry and no LOGNAME/USER (containers
    started with an arbitrary uid: getpass.getuser() raises), or a non-ASCII login name.  Only DBUS_COOKIE_SHA1 needs the
    name: against a server that accepts EXTERNAL or ANONYMOUS the handshake completes as always (a server that accepts
    only the cookie mechanism cannot be satisfied from such a process and is left out)."""
    saved = A.getpass
    envs = [('no-login-name', KeyError('getpwuid(): uid not found: 1000730000')), ('non-ascii-login-name', 'j\u00f6rg'),
            ('os-error', OSError('No username set in the environment')), ('ordinary', 'vuser')]
    try:
        for ename, outcome in envs:
            A.getpass = _Getpass(outcome)
            for accept in ((b'EXTERNAL',), (b'ANONYMOUS',), (b'EXTERNAL', b'ANONYMOUS'), (b'ANONYMOUS', b'DBUS_COOKIE_SHA1')):
                for unix in (True, False):
                    for agree in (True, False):
                        case = {'kind': 'login-name', 'environment': ename, 'accept': [m.decode() for m in accept],
                                'unix': unix, 'agree': agree}
                        full_handshake(ctx, accept, agree, unix, 'data', case)
                        ctx.count('login_name_environment_handshakes')
    finally:
        A.getpass = saved


def classify_incomplete(w):
    return None


def custom_preferences(ctx):
    """The mechanisms offered, and their order, are the configured preference list (the documented `preference`
    attribute of the authenticator class) - also when an application narrows or reorders it."""
    from txdbus import authentication as A
    prefs = [[b'ANONYMOUS'], [b'ANONYMOUS', b'EXTERNAL'], [b'DBUS_COOKIE_SHA1', b'ANONYMOUS'], [b'EXTERNAL'],
             [b'ANONYMOUS', b'DBUS_COOKIE_SHA1', b'EXTERNAL']]
    for pref in prefs:
        for how in ('subclass', 'instance-of-subclass-edited'):
            if how == 'subclass':
                auth_cls = type('NarrowAuth', (A.ClientAuthenticator,), {'preference': list(pref)})
            else:
                auth_cls = type('NarrowAuth2', (A.ClientAuthenticator,), {})
                auth_cls.preference = list(pref)
            proto_cls = type('NarrowClient', (MonClient,), {'authenticator': auth_cls})
            for unix in (False, True):
                s = ClientSession(unix, proto_cls=proto_cls)
                offered = [mech_of(l) for l in s.collect() if mech_of(l)]
                for _ in range(6):
                    if s.closed:
                        break
                    s.ep.feed(b'REJECTED EXTERNAL DBUS_COOKIE_SHA1 ANONYMOUS\r\n')
                    offered += [mech_of(l) for l in s.collect() if mech_of(l)]
                ctx.count('evaluations')
                ctx.count('custom_preference_runs')
                if offered != pref or not s.closed:
                    ctx.report('mechanism-order', 'authenticator with preference %r (%s): offered %r, closed=%s' % (
                        pref, how, offered, s.closed), {'preference': [p_.decode() for p_ in pref], 'how': how,
                                                        'offered': [o.decode() for o in offered], 'unix': unix},
                        {'kind': 'custom-preference'})
                    s.finish()
                    return
                s.finish()


def floods(ctx):
    """More than 16 KiB of handshake data that never forms a line is outside the protocol: the client closes when the
    limit is crossed - also when the read that crosses it is the last thing the server ever sends."""
    junk = b'x' * 20000
    scenarios = {
        'one read of 20000 bytes': [junk],
        '16384 bytes, then one more': [junk[:16384], b'y'],
        'a REJECTED line and 17000 bytes in one read': [b'REJECTED EXTERNAL\r\n' + junk[:17000]],
        '4 KiB reads up to 20000 bytes': [junk[i:i + 4096] for i in range(0, 20000, 4096)],
        'LF-only banner of 18000 bytes': [(b'HTTP/1.1 400 Bad Request\n' * 800)[:18000]],
    }
    for unix in (False, True):
        for name, reads in scenarios.items():
            s = ClientSession(unix)
            s.collect()
            for rd in reads:
                s.ep.feed(rd)
            ctx.count('evaluations')
            ctx.count('flood_scenarios')
            if not s.closed:
                ctx.report('no-close-on-flood', 'server sent %s without a line end: the client keeps waiting (buffered %d bytes)' % (
                    name, sum(len(x) for x in reads)), {'scenario': name, 'unix': unix}, {'kind': 'flood', 'scenario': name})
            elif s.p.auth_calls:
                ctx.report('begin-without-ok', 'client authenticated during a flood', {'scenario': name}, {'kind': 'flood'})
            s.finish()
    # a legal line of exactly 16384 bytes whose line end comes in a later read must not be refused early
    s = ClientSession(False)
    s.collect()
    s.ep.feed(b'ERROR ' + b'e' * (16384 - 6))
    still_open = not s.closed
    s.ep.feed(b'\r\n')
    out = s.collect()
    ctx.count('evaluations')
    if not still_open:
        ctx.report('legal-line-closed', 'a legal handshake line of exactly 16384 bytes closed the connection before its line '
                   'end arrived', {}, {'kind': 'flood', 'scenario': 'exact'})
    s.finish()


def rotated_cookie(ctx, env):
    """Later connections of the same process: the server keeps handing out the same cookie id, but the secret stored
    under it in the keyring has changed in between (a bus deletes cookies after use and numbers new ones from 1 again).
    A conforming server that accepts only DBUS_COOKIE_SHA1 must still be reachable."""
    global COOKIE
    original = COOKIE
    try:
        for k in range(1, 5):
            COOKIE = (b'%02x' % k) * 24
            env.write_cookie(COOKIE_CTX.decode(), COOKIE_ID, COOKIE)
            for unix in (True, False):
                case = {'kind': 'rotated', 'k': k, 'unix': unix}
                ctx.count('rotated_cookie_handshakes')
                full_handshake(ctx, (b'DBUS_COOKIE_SHA1',), True, unix, 'data', case)
    finally:
        COOKIE = original
        env.write_cookie(COOKIE_CTX.decode(), COOKIE_ID, COOKIE)


def keyring_with_other_lines(ctx, env):
    """The client's keyring file as other programs and crashes leave it: the cookie the server asks for is there, among
    older cookies and damaged lines (blank, truncated, with an extra field, not text).  A conforming server that accepts
    only DBUS_COOKIE_SHA1 must still be reachable."""
    import os
    import time
    now = int(time.time())
    right = b'%s %d %s\n' % (COOKIE_ID, now, COOKIE)
    layouts = {
        'older-cookies-first': b'5 %d aa11\n6 %d bb22\n' % (now - 100, now - 50) + right,
        'blank-line-first': b'\n' + right,
        'truncated-line-first': b'12 %d\n' % now + right,
        'extra-field-first': b'13 %d cc33 trailing\n' % now + right,
        'binary-junk-first': b'\xff\xfe\x00 junk\n' + right,
        'damaged-between': b'5 %d aa11\n\n  \n9\n' % now + right + b'99 %d dd44\n' % now,
        'no-final-newline': b'5 %d aa11\n' % now + right[:-1],
    }
    path = os.path.join(env.keyring, COOKIE_CTX.decode())
    try:
        for name, content in layouts.items():
            with open(path, 'wb') as f:
                f.write(content)
            for unix in (True, False):
                case = {'kind': 'keyring-lines', 'layout': name, 'unix': unix}
                ctx.count('keyring_layout_handshakes')
                full_handshake(ctx, (b'DBUS_COOKIE_SHA1',), True, unix, 'data', case)
    finally:
        env.write_cookie(COOKIE_CTX.decode(), COOKIE_ID, COOKIE)


def run(ctx):
    si, sn = ctx.shard or (0, 1)
    quick = ctx.tier == 'quick'
    L = 4 if quick else 6
    ctx.rule = ('all sequences of <= %d server lines over %d symbols x {UNIX, non-UNIX} transport against the real client, '
                'monitors S1-S6 on the transport log (BEGIN only after OK<guid> and answered fd negotiation; only '
                'handshake lines before BEGIN; mechanisms in preference order once each; every line answered or '
                'connection closed; close on exhaustion / out-of-protocol); a sample re-run with split reads; full '
                'handshakes against a reference server for all 8 accepted-mechanism subsets x AGREE/ERROR x 2 transports '
                'x 2 EXTERNAL styles. distinct_nontrivial = distinct sequences reaching OK or a second mechanism' % (
                    L, len(SYMS)))
    with authenv.AuthEnv() as env:
        env.write_cookie(COOKIE_CTX.decode(), COOKIE_ID, COOKIE)
        ctx.budget(55 if quick else 540)
        n = 0
        stop = False
        for ln in range(1, L + 1):
            for seq in itertools.product(SYMS, repeat=ln):
                n += 1
                if n % sn != si:
                    continue
                for unix in (False, True):
                    hist = run_lines(ctx, seq, unix, {'kind': 'seq', 'symbols': list(seq), 'unix': unix})
                    if len(hist) >= 2:
                        ctx.distinct('nontrivial_cases', (seq, unix))
                        if n % 3 == (1 if unix else 2) and not ctx.n_new_violations():
                            coalesced_lines(ctx, seq, unix, {'kind': 'seq', 'symbols': list(seq), 'unix': unix,
                                                             'coalesced': True}, hist)
                if n % 4 == 0:
                    r = random.Random(n)
                    run_lines(ctx, seq, bool(n % 2), {'kind': 'seq', 'symbols': list(seq), 'unix': bool(n % 2),
                                                      'split': n}, split_rng=r)
                    ctx.count('split_runs')
                if ctx.stop_early() or (n % 500 == 0 and ctx.out_of_time()):
                    stop = True
                    break
            if stop:
                break
        ctx.exhaustive = not ctx.truncated
        ctx.note('exhaustive_bound', {'alphabet': SYMS, 'max_len': L, 'transports': 2, 'sequences': n})
        # client-side command words said by the server, alone and after / before every other line
        if si == 0:
            for ln in (1, 2, 3):
                for seq in itertools.product(SYMS + CLIENT_WORDS, repeat=ln):
                    if not any(x in CLIENT_WORDS for x in seq) or (ln == 3 and seq[1] not in CLIENT_WORDS):
                        continue
                    for unix in (False, True):
                        run_lines(ctx, seq, unix, {'kind': 'seq', 'symbols': list(seq), 'unix': unix})
                        ctx.count('client_word_sequences')
            for ln in (1, 2, 3):
                for seq in itertools.product(SYMS + HIBIT_WORDS, repeat=ln):
                    if seq[-1] not in HIBIT_WORDS:
                        continue
                    for unix in (False, True):
                        run_lines(ctx, seq, unix, {'kind': 'seq', 'symbols': list(seq), 'unix': unix})
                        ctx.count('hibit_sequences')
        # (b)
        if si == 0:
            for k in range(0, 4):
                for accept in itertools.combinations(PREFERENCE, k):
                    for agree in (True, False, 'bare'):
                        for unix in (True, False):
                            for style in ('data', 'ok'):
                                case = {'kind': 'full', 'accept': [m.decode() for m in accept], 'agree': agree,
                                        'unix': unix, 'style': style}
                                full_handshake(ctx, accept, agree, unix, style, case)
                                full_handshake(ctx, accept, agree, unix, style, dict(case, split=1),
                                               split_rng=random.Random(str(case)))
            rotated_cookie(ctx, env)
            keyring_with_other_lines(ctx, env)
            floods(ctx)
            custom_preferences(ctx)
            login_name_environments(ctx)
        ctx.sample({'server_lines': [LINE[s].decode() for s in ('REJECTED', 'DATA_cookie', 'OK_guid', 'AGREE_UNIX_FD')],
                    'transport': 'UNIX'})
    ctx.require(ctx.counters.get('begins', 0) > 10, 'no BEGIN observed')
    ctx.require(ctx.counters.get('handshakes_completed', 0) > 10 or sn > 1, 'no completed handshake observed')


def replay(ctx, rp):
    case = rp['case']
    with authenv.AuthEnv() as env:
        env.write_cookie(COOKIE_CTX.decode(), COOKIE_ID, COOKIE)
        if case.get('kind') == 'custom-preference':
            custom_preferences(ctx)
            return
        if case.get('kind') == 'keyring-lines':
            keyring_with_other_lines(ctx, env)
            return
        if case.get('kind') == 'login-name':
            login_name_environments(ctx)
            return
        if case.get('kind') == 'flood':
            floods(ctx)
            return
        if case.get('kind') == 'rotated':
            full_handshake(ctx, (b'DBUS_COOKIE_SHA1',), True, case['unix'], 'data', {'kind': 'full'})
            rotated_cookie(ctx, env)
            return
        if case['kind'] == 'seq':
            r = random.Random(case['split']) if 'split' in case else None
            run_lines(ctx, case['symbols'], case['unix'], case, split_rng=r)
        else:
            full_handshake(ctx, [m.encode() for m in case['accept']], case['agree'], case['unix'], case['style'], case,
                           split_rng=random.Random(str({k: v for k, v in case.items() if k != 'split'}))
                           if 'split' in case else None)
