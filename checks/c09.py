"""
C09 — connecting always concludes; a lost connection fails all pending work once.

Fault enumeration:
(a) client.connect() on a MemoryReactorClock for address lists x every reachability mask; on the
    first reachable entry the server->client stream of several server behaviours is cut after
    every byte; the Deferred must fire exactly once, the right way, and endpoints must be tried
    in listed order and not past the first reachable one.
(b) an established connection is lost at every step (and inside partially delivered replies) of
    a scripted traffic with calls / timers / disconnect callbacks / proxies in flight.
"""
import itertools
import random

from twisted.internet import task
from twisted.internet.error import (ConnectingCancelledError, ConnectionLost, ConnectionRefusedError, DNSLookupError,
                                    NoRouteError)
from twisted.internet.error import TimeoutError as TxTimeoutError
from twisted.internet.testing import MemoryReactorClock
from twisted.python.failure import Failure

from harness import clientfix, ref_message as RM, simnet
from txdbus import error as E
from txdbus import client as C
from txdbus import interface as I
from txdbus import introspection

PROP = 'C09'
LEVEL = 'fault_enumeration'
SHARDS = {'thorough': 8}

GUID = clientfix.GUID


class LogReactor(MemoryReactorClock):
    def __init__(self):
        MemoryReactorClock.__init__(self)
        self.attempts = []

    def connectUNIX(self, address, factory, timeout=30, checkPID=0):
        conn = MemoryReactorClock.connectUNIX(self, address, factory, timeout, checkPID)
        self.attempts.append(('unix', address, factory, conn))
        return conn

    def connectTCP(self, host, port, factory, timeout=30, bindAddress=None):
        conn = MemoryReactorClock.connectTCP(self, host, port, factory, timeout, bindAddress)
        self.attempts.append(('tcp', (host, port), factory, conn))
        return conn


ENTRIES = [
    ('unix:path=/tmp/verif-bus-a', ('unix', '/tmp/verif-bus-a')),
    ('unix:abstract=verif-abs,guid=00ff', ('unix', '\0verif-abs')),
    ('tcp:host=127.0.0.1,port=4711', ('tcp', ('127.0.0.1', 4711))),
    ('nonce-tcp:host=10.0.0.9,port=99,noncefile=/x', ('tcp', ('10.0.0.9', 99))),
    ('unix:path=/tmp/verif-bus-b', ('unix', '/tmp/verif-bus-b')),
    ('tcp:host=localhost,port=1', ('tcp', ('localhost', 1))),
]


# ------------------------------------------------------------------ server behaviours

def server_script(behaviour, unix):
    """Returns a function line/message -> bytes reply (or None), modelling one server behaviour."""
    state = {'n_auth': 0}

    def on_line(line):
        if line.startswith(b'AUTH'):
            state['n_auth'] += 1
            if behaviour == 'refuse':
                return b'REJECTED EXTERNAL\r\n'
            # a refusal may also be spelled ERROR (the client moves on just the same); the server keeps the socket open
            if behaviour == 'refuse-error':
                return b'ERROR "not here"\r\n'
            if behaviour == 'refuse-mixed':
                return b'REJECTED EXTERNAL DBUS_COOKIE_SHA1 ANONYMOUS\r\n' if state['n_auth'] == 1 else b'ERROR\r\n'
            if behaviour == 'second-mechanism-error' and state['n_auth'] < 3:
                return b'ERROR "try another"\r\n'
            if behaviour == 'second-mechanism' and state['n_auth'] < 3:
                return b'REJECTED ANONYMOUS\r\n'
            if behaviour == 'external-data' and line.startswith(b'AUTH EXTERNAL'):
                return b'DATA\r\n'
            return b'OK ' + GUID + b'\r\n'
        if line.startswith(b'DATA'):
            return b'OK ' + GUID + b'\r\n'
        if line == b'NEGOTIATE_UNIX_FD':
            return b'AGREE_UNIX_FD\r\n' if behaviour != 'fd-error' else b'ERROR "no fds"\r\n'
        if line.startswith(b'CANCEL') or line.startswith(b'ERROR'):
            return b'REJECTED EXTERNAL ANONYMOUS\r\n'
        return None

    def on_message(m):
        if m.fields.get('member') == 'Hello':
            if behaviour == 'hello-error':
                return RM.build(RM.ERROR, 1, {'reply_serial': m.serial, 'error_name': 'org.freedesktop.DBus.Error.Failed'},
                                's', ['no hello for you'])
            if behaviour == 'hello-error-nobody':
                return RM.build(RM.ERROR, 1, {'reply_serial': m.serial, 'error_name': 'org.freedesktop.DBus.Error.Failed'})
            if behaviour == 'hello-error-int':
                return RM.build(RM.ERROR, 1, {'reply_serial': m.serial, 'error_name': 'org.freedesktop.DBus.Error.Failed'},
                                'u', [7])
            return RM.build(RM.METHOD_RETURN, 1, {'reply_serial': m.serial, 'destination': ':1.9'}, 's', [':1.9'],
                            little=(behaviour != 'big-endian'))
        return None
    return on_line, on_message


BEHAVIOURS = ['plain', 'second-mechanism', 'external-data', 'fd-error', 'big-endian', 'refuse', 'hello-error',
              'hello-error-nobody', 'hello-error-int', 'refuse-error', 'refuse-mixed', 'second-mechanism-error']


FAILING = ('refuse', 'hello-error', 'hello-error-nobody', 'hello-error-int', 'refuse-error', 'refuse-mixed')


class Wire:
    """Client side of one connection attempt built through the recorded factory; the checker plays server."""

    def __init__(self, factory, unix, behaviour):
        self.t = simnet.SimUnixTransport() if unix else simnet.SimTransport()
        self.proto = factory.buildProtocol(None)
        self.on_line, self.on_message = server_script(behaviour, unix)
        self.buf = b''
        self.begun = False
        self.bin = b''
        self.lost = False
        self.crashes = []
        self.sent_to_client = 0
        self.consumed = 0
        self.split_mode = 0

    def start(self):
        self.proto.makeConnection(self.t)

    def _client_output(self):
        out = self.t.written()
        new = out[self.consumed:]
        self.consumed = len(out)
        return new

    def step_responses(self):
        """Yield the server's responses to whatever the client has written so far."""
        data = self._client_output()
        replies = []
        if not self.begun:
            self.buf += data
            if self.buf[:1] == b'\0':
                self.buf = self.buf[1:]
            while b'\r\n' in self.buf:
                line, self.buf = self.buf.split(b'\r\n', 1)
                if line == b'BEGIN':
                    self.begun = True
                    self.bin += self.buf
                    self.buf = b''
                    break
                r = self.on_line(line)
                if r:
                    replies.append(r)
        else:
            self.bin += data
        if self.begun:
            msgs, self.bin = RM.split_stream(self.bin)
            for raw in msgs:
                r = self.on_message(RM.parse(raw))
                if r:
                    replies.append(r)
        return replies

    def feed(self, data):
        if self.lost:
            return
        try:
            self.proto.dataReceived(data)
        except Exception as e:
            self.crashes.append(e)
            self.lose(Failure(e))
        self.sent_to_client += len(data)

    def lose(self, reason=None):
        if self.lost:
            return
        self.lost = True
        self.t.disconnected = True
        try:
            self.proto.connectionLost(reason or Failure(ConnectionLost('cut')))
        except Exception as e:
            self.crashes.append(e)

    def run(self, cut=None):
        """Play the exchange; deliver at most `cut` bytes of the server->client stream, then lose.
        Returns the total number of server bytes that a full exchange delivered (when cut is None)."""
        self.start()
        budget = cut
        for _ in range(50):
            if self.t.disconnecting and not self.lost:
                # the client closed: the transport reports the loss
                self.lose(Failure(ConnectionLost('client closed')))
                break
            replies = self.step_responses()
            if not replies:
                break
            for r in replies:
                if budget is not None:
                    if budget <= 0:
                        break
                    r = r[:budget]
                    budget -= len(r)
                # what the server writes at once may arrive in several reads: whole, cut between the CR and the LF that
                # end a handshake line (or before the last byte of a message), cut in the middle, or byte by byte
                mode = self.split_mode
                if mode == 1 and len(r) > 1:
                    pieces = [r[:-1], r[-1:]]
                elif mode == 2 and len(r) > 2:
                    pieces = [r[:len(r) // 2], r[len(r) // 2:]]
                elif mode == 3:
                    pieces = [r[i:i + 1] for i in range(len(r))]
                else:
                    pieces = [r]
                for pc in pieces:
                    self.feed(pc)
                    if self.lost:
                        break
                if self.lost:
                    break
            if self.lost or (budget is not None and budget <= 0):
                break
        if cut is not None and not self.lost:
            self.lose()
        return self.sent_to_client


# the ways an address can be unreachable (not all of them derive from twisted's ConnectError)
UNREACHABLE = [
    lambda: ConnectionRefusedError('refused'),
    lambda: TxTimeoutError('timed out'),
    lambda: DNSLookupError('no such host'),
    lambda: NoRouteError('no route'),
    lambda: ConnectingCancelledError(None),
    lambda: OSError(13, 'permission denied on the socket path'),
    lambda: RuntimeError('endpoint failed in an unexpected way'),
]


def connect_case(ctx, entries, mask, behaviour, cut, case, fail_kind=0):
    """entries: indices into ENTRIES; mask[i] True = reachable.  Returns total stream length if cut is None."""
    reactor = LogReactor()
    addr = ';'.join(ENTRIES[i][0] for i in entries)
    results = []
    ctx.count('evaluations')
    d = C.connect(reactor, addr)
    d.addCallbacks(lambda c: results.append(('ok', c)), lambda f: results.append(('err', f)))
    w = {'address': addr, 'mask': list(mask), 'behaviour': behaviour, 'cut': cut, 'unreachable_kind': fail_kind}
    total = None
    wire = None
    k = 0
    expected_attempts = []
    while k < len(reactor.attempts):
        kind, where, factory, connector = reactor.attempts[k]
        expected_attempts.append((kind, where))
        if k >= len(entries):
            break
        if mask[k]:
            wire = Wire(factory, kind == 'unix', behaviour)
            wire.split_mode = case.get('split', (len(addr) + (cut or 0) + fail_kind + sum(entries)) % 4)
            w['split_mode'] = wire.split_mode
            ctx.count('connect_cases_split_mode_%d' % wire.split_mode)
            total = wire.run(cut)
            break
        factory.clientConnectionFailed(connector, Failure(UNREACHABLE[(fail_kind + k) % len(UNREACHABLE)]()))
        k += 1
    # let every timer run
    reactor.advance(100000)
    got_attempts = [(a[0], a[1]) for a in reactor.attempts]
    first_reachable = next((i for i, m in enumerate(mask) if m), None)
    want_attempts = [ENTRIES[i][1] for i in entries[:(first_reachable + 1 if first_reachable is not None else len(entries))]]
    if got_attempts != want_attempts:
        w['attempts'] = got_attempts
        w['expected_attempts'] = want_attempts
        ctx.report('endpoint-order', 'endpoints tried %r, expected %r' % (got_attempts, want_attempts), w, case)
    if wire is not None and wire.crashes:
        w['crash'] = repr(wire.crashes[0])
    # verdict on the Deferred
    if first_reachable is None:
        want = 'err'
    elif behaviour in FAILING:
        want = 'err'
    else:
        want = 'ok' if cut is None or (total is not None and cut >= FULL.get((behaviour, ENTRIES[entries[first_reachable]][1][0] == 'unix'), 1 << 30)) else 'err'
    if len(results) != 1:
        w['results'] = [(k_, repr(v)[:120]) for k_, v in results]
        ctx.report(classify_connect(results, w), 'connect() Deferred fired %d times (expected once, %s) for %s, behaviour %s, '
                   'cut after %s server bytes' % (len(results), want, addr, behaviour, cut), w, case)
    elif results[0][0] != want:
        w['results'] = [(results[0][0], repr(results[0][1])[:200])]
        ctx.report('wrong-connect-outcome', 'connect() fired %s, expected %s (behaviour %s, cut %s)' % (
            results[0][0], want, behaviour, cut), w, case)
    else:
        ctx.count('connect_' + want)
        if want == 'ok':
            conn = results[0][1]
            if getattr(conn, 'busName', None) != ':1.9':
                ctx.report('bus-name', 'connected but busName is %r' % getattr(conn, 'busName', None), w, case)
    live = [dc for dc in reactor.getDelayedCalls() if dc.active()]
    if live:
        ctx.report('timer-left', '%d delayed calls left on the reactor after connect concluded' % len(live), w, case)
    if wire is not None and not wire.lost:
        # whatever the outcome was, the transport eventually closes: nothing may fire or raise then
        n_before = len(results)
        crashes_before = len(wire.crashes)
        wire.lose()
        try:
            reactor.advance(100000)
        except Exception as e:
            wire.crashes.append(e)
        ctx.count('closed_after_conclusion')
        if len(results) != n_before:
            w['results'] = [(k_, repr(v)[:120]) for k_, v in results]
            ctx.report('fired-again-after-close', 'connect() Deferred fired again when the transport closed after the attempt '
                       'had concluded (%s)' % want, w, case)
        elif len(wire.crashes) != crashes_before:
            w['crash'] = repr(wire.crashes[-1])
            ctx.report('close-after-conclusion-raised', 'closing the transport after connect() had concluded (%s, behaviour '
                       '%s) raised %r' % (want, behaviour, wire.crashes[-1]), w, case)
    return total


def synchronous_loss(ctx):
    """A hand-made or in-process transport may report the loss of the connection from inside write() (EPIPE at once, a
    loop-back peer that hangs up while it is being written to): the call that was being written - the Hello call of a
    connection attempt included - is outstanding and fails once with that loss; no timer survives."""
    clock = clientfix.install_clock()
    for variant in range(6):
        timeout = (None, 4.0)[variant % 2]
        stage = ('call', 'call', 'hello')[variant // 2]
        peer = clientfix.Peer(unix=bool(variant % 3 == 0))
        loss = Failure(ConnectionLost('lost inside write'))
        fired = {'n': 0}

        def on_event(k_, payload, peer=peer, loss=loss, fired=fired, stage=stage):
            if k_ != 'write' or fired['n']:
                return
            want = b'Hello' if stage == 'hello' else b'Doomed'
            if want in payload:
                fired['n'] += 1
                peer.lose(loss)
        case = {'kind': 'sync-loss', 'variant': variant}
        w = {'stage': stage, 'timeout': timeout}
        ctx.count('evaluations')
        ctx.count('synchronous_loss_cases')
        peer.connect()
        if stage == 'hello':
            peer.ep.t.on_event = on_event
            peer.authenticate()
            res = peer.connect_results
            if len(res) != 1 or res[0][0] != 'err':
                ctx.report('sync-loss', 'the transport closed while the Hello call was being written: connect Deferred fired '
                           '%d times (%r)' % (len(res), [(k, repr(v)[:80]) for k, v in res]), w, case)
                return
        else:
            peer.authenticate()
            peer.hello()
            peer.ep.t.on_event = on_event
            kw = {'timeout': timeout} if timeout else {}
            try:
                out = clientfix.Outcome(peer.proto.callRemote('/obj', 'Doomed', interface='org.verif.I',
                                                              destination='org.verif.P', **kw))
            except Exception as e:
                ctx.report('sync-loss', 'callRemote raised %r when the transport closed during the write' % e, w, case)
                return
            if out.fired != 1 or out.results[0][0] != 'err' or out.results[0][1].value is not loss.value:
                w['results'] = [(k, repr(v)[:80]) for k, v in out.results]
                ctx.report('sync-loss', 'the transport closed while a call was being written: the call completed %d times '
                           '(%r), expected once with the loss reason' % (out.fired, w['results']), w, case)
                return
        try:
            clock.advance(1000)
        except Exception as e:
            ctx.report('timer-callback-raised', 'a timer raised %r after a loss inside write()' % e, w, case)
            return
        live = [dc for dc in clock.getDelayedCalls() if dc.active()]
        if live or (stage != 'hello' and peer.proto._pendingCalls):
            ctx.report('sync-loss', 'after a loss inside write(): %d timers live, %d pending entries' % (
                len(live), len(peer.proto._pendingCalls)), w, case)
            for dc in live:
                dc.cancel()
            return
        if peer.ep.crashes:
            ctx.report('connectionLost-raised', 'loss inside write(): %r' % peer.ep.crashes[0], w, case)
            return


def classify_connect(results, w):
    return None


FULL = {}


def part_a(ctx, si, sn, quick):
    # full stream length per (behaviour, unix)
    for b in BEHAVIOURS:
        for unix_idx, unix in ((0, True), (2, False)):
            if b in FAILING:
                continue
            total = connect_case(ctx, [unix_idx], [True], b, None, {'kind': 'connect-full', 'behaviour': b, 'unix': unix})
            FULL[(b, unix)] = total
    ctx.note('server_stream_lengths', {'%s/%s' % (b, 'unix' if u else 'tcp'): n for (b, u), n in FULL.items()})
    n = 0
    # every cut of every behaviour, single reachable entry
    for b in BEHAVIOURS:
        for unix_idx, unix in ((0, True), (2, False)):
            full = FULL.get((b, unix))
            if full is None:
                full = 200
            for cut in range(0, full + 1):
                n += 1
                if n % sn != si:
                    continue
                connect_case(ctx, [unix_idx], [True], b, cut,
                             {'kind': 'connect', 'entries': [unix_idx], 'mask': [True], 'behaviour': b, 'cut': cut})
                ctx.count('cut_points')
                ctx.distinct('nontrivial_cases', ('cut', b, unix, cut))
            if ctx.stop_early():
                return
    # address lists x reachability masks
    lists = [list(p) for k in (1, 2, 3, 4) for p in itertools.permutations(range(len(ENTRIES)), k)]
    r = ctx.rng
    r.shuffle(lists)
    for entries in lists[:(300 if quick else 1300)]:
        for mask in itertools.product([False, True], repeat=len(entries)):
            n += 1
            if n % sn != si:
                continue
            b = r.choice(BEHAVIOURS)
            first = next((i for i, m in enumerate(mask) if m), None)
            cut = None
            if first is not None and r.random() < 0.5:
                unix = ENTRIES[entries[first]][1][0] == 'unix'
                cut = r.randint(0, FULL.get((b, unix), 60))
            fk = r.randrange(len(UNREACHABLE))
            connect_case(ctx, entries, list(mask), b, cut,
                         {'kind': 'connect', 'entries': entries, 'mask': list(mask), 'behaviour': b, 'cut': cut,
                          'fail_kind': fk}, fail_kind=fk)
            ctx.distinct('unreachable_kinds', fk)
            ctx.count('mask_cases')
            ctx.distinct('nontrivial_cases', ('mask', tuple(entries), mask))
        if ctx.stop_early():
            return
    # empty / no valid address
    results = []
    d = C.connect(LogReactor(), 'bogus:foo=bar')
    d.addCallbacks(lambda c: results.append('ok'), lambda f: results.append('err'))
    ctx.count('evaluations')
    if results != ['err']:
        ctx.report('no-address-outcome', 'connect() with no usable address fired %r' % results, {}, {'kind': 'noaddr'})


# ------------------------------------------------------------------ (b) established connection

IFACE_XML = '''<!DOCTYPE node PUBLIC "-//freedesktop//DTD D-BUS Object Introspection 1.0//EN"
"http://www.freedesktop.org/standards/dbus/1.0/introspect.dtd">
<node name="/obj">
  <interface name="%s">
    <method name="Ping"><arg direction="out" type="s"/></method>
  </interface>
  <interface name="%s">
    <method name="Ping"><arg direction="out" type="s"/></method>
  </interface>
</node>'''


class Counter:
    def __init__(self, label):
        self.label = label
        self.calls = []

    def __call__(self, *a):
        self.calls.append(a)


class Listener:
    def __init__(self):
        self.counter = Counter('listener')

    def on_lost(self, *a):
        self.counter(*a)


def traffic_steps(rng, scenario_idx):
    """A scripted history; each step is (kind, args).  Loss can be injected before any step."""
    r = random.Random('c09b/%s' % scenario_idx)
    steps = []
    n_calls = r.randint(0, 4)
    for i in range(n_calls):
        steps.append(('call', {'idx': i, 'timeout': r.choice([None, None, 5.0 + i])}))
    steps.append(('dc', {'idx': 0}))
    if r.random() < 0.5:
        steps.append(('dc', {'idx': 1}))
    steps.append(('proxy-explicit', {'idx': 0}))
    steps.append(('proxy-known', {'idx': 1}))
    steps.append(('proxy-introspect', {'idx': 2}))
    if r.random() < 0.7:
        steps.append(('proxy-introspect', {'idx': 3, 'same_as': 2}))
    if r.random() < 0.5:
        steps.append(('proxy-explicit', {'idx': 4, 'same_as': 0}))
    if r.random() < 0.5:
        steps.append(('proxy-list', {'idx': 5}))
    r.shuffle(steps)
    for i in range(n_calls):
        if r.random() < 0.4:
            steps.append(('reply', {'idx': i}))
        elif r.random() < 0.3:
            steps.append(('cancel', {'idx': i}))      # the caller gives up on the call (Deferred.cancel)
    steps.append(('answer-introspection', {}))
    if r.random() < 0.4:
        # time passes: calls with a deadline of 5-8 s time out BEFORE the connection is lost (and are then no longer
        # outstanding: the loss must neither fail them again nor stumble over what they left behind)
        steps.append(('tick', {'dt': r.choice([5.5, 6.5, 9.0])}))
    r.shuffle(steps)
    return steps


def established_case(ctx, scenario_idx, lose_at, partial, case):
    """Run the scripted traffic, lose the connection before step `lose_at` (partial: deliver only that many bytes of
    the next server->client message first)."""
    clock = clientfix.install_clock()
    saved_known = dict(I.DBusInterface.knownInterfaces)
    ctx.count('evaluations')
    try:
        peer = clientfix.Peer(unix=bool(scenario_idx % 2)).ready()
        conn = peer.proto
        steps = traffic_steps(None, scenario_idx)
        known_name = 'org.verif.Known%d' % scenario_idx
        I.DBusInterface(known_name, I.Method('Ping', returns='s'))
        explicit = I.DBusInterface('org.verif.Explicit%d' % scenario_idx, I.Method('Ping', returns='s'), noRegister=True)
        calls = {}
        dcs = {}
        proxies = {}          # idx -> {'d': Outcome, 'obj': proxy or None, 'cb': Counter}
        pending_introspect = []
        reentrant = []
        proxy_reentry = []
        retried = []
        cancelled = []
        loss = Failure(ConnectionLost('verif established loss'))
        w = {'scenario': scenario_idx, 'steps': [[k, a] for k, a in steps], 'lose_at': lose_at, 'partial': partial}

        def attach_proxy(idx, d):
            rec = {'d': clientfix.Outcome(), 'obj': None, 'cb': Counter('proxy%d' % idx)}

            def got(obj):
                rec['obj'] = obj
                if (scenario_idx + idx) % 4 == 0:
                    oneshot = Counter('oneshot-proxy%d' % idx)

                    def fire_once(o_, reason_, _cnt=oneshot):
                        _cnt(o_, reason_)
                        o_.cancelNotifyOnDisconnect(fire_once)
                    obj.notifyOnDisconnect(fire_once)
                    obj.notifyOnDisconnect(rec['cb'])
                    rec['oneshot'] = oneshot
                elif (scenario_idx + idx) % 4 == 2:
                    c_ = Counter('cancelled-proxy%d' % idx)
                    obj.notifyOnDisconnect(c_)
                    if scenario_idx % 2:
                        # the only callback is cancelled first (the proxy has none for a while), another registered later
                        obj.cancelNotifyOnDisconnect(c_)
                        obj.notifyOnDisconnect(rec['cb'])
                    else:
                        obj.notifyOnDisconnect(rec['cb'])
                        obj.cancelNotifyOnDisconnect(c_)
                    cancelled.append(('proxy', c_))
                    l_ = Listener()
                    obj.notifyOnDisconnect(l_.on_lost)
                    obj.cancelNotifyOnDisconnect(l_.on_lost)
                    cancelled.append(('proxy (bound method)', l_.counter))
                else:
                    obj.notifyOnDisconnect(rec['cb'])
                if scenario_idx % 3 == 2 and idx % 2 == 0:
                    # a proxy-level listener that says goodbye through the dying connection: what it starts is outstanding
                    # on a dead connection and must be failed by the same loss, like everything else
                    def proxy_goodbye(o_, reason_):
                        for t_ in (None, 3.5):
                            kw_ = {'timeout': t_} if t_ else {}
                            reentrant.append(clientfix.Outcome(conn.callRemote(
                                '/obj', 'ProxyGoodbye', interface='org.verif.I', destination='org.verif.P', **kw_)))
                        proxy_reentry.append(idx)
                    obj.notifyOnDisconnect(proxy_goodbye)
                return obj
            d.addCallback(got)
            rec['d'].attach(d)
            proxies[idx] = rec

        # an application-side registry of further proxies: the only strong references to them.  Whichever of their
        # disconnect callbacks runs first empties the registry (and looks up one more proxy, synchronously, on the dying
        # connection); all of them were alive when the connection was lost, so each callback runs once all the same
        registry = {}
        registry_cbs = {}
        late_lookups = []
        if scenario_idx % 4 == 2:
            import gc

            def make_cb(name_):
                cnt = Counter('registry-' + name_)

                def cb(o_, reason_):
                    cnt(o_, reason_)
                    if registry:
                        registry.clear()
                        gc.collect()
                        if scenario_idx % 8 == 2:
                            late = Counter('late-lookup')
                            late_lookups.append(late)
                            conn.getRemoteObject('org.verif.P', '/late', explicit).addCallback(
                                lambda o2: o2.notifyOnDisconnect(late) and None)
                return cnt, cb
            for name_ in ('r0', 'r1', 'r2', 'r3'):
                cnt_, cb_ = make_cb(name_)
                registry_cbs[name_] = cnt_

                def keep(o_, _n=name_, _cb=cb_):
                    o_.notifyOnDisconnect(_cb)
                    registry[_n] = o_
                conn.getRemoteObject('org.verif.P', '/reg/' + name_, explicit if name_ != 'r1' else known_name).addCallback(keep)
            del keep, cb_
            ctx.count('scenarios_with_a_proxy_registry')

        def do(step):
            kind, a = step
            if kind == 'call':
                kw = {'timeout': a['timeout']} if a['timeout'] else {}
                d = conn.callRemote('/obj', 'M%d' % a['idx'], interface='org.verif.I', destination='org.verif.P', **kw)
                if scenario_idx % 5 == 2 and a['idx'] in (0, 2):
                    # retry-on-failure: the failure handler of this call issues another call on the same connection
                    # (when that happens while the lost connection is failing its calls, the new one is outstanding on
                    # a dead connection and must be failed by the same loss as well)
                    # ... and a retry that fails is retried in turn, up to a few attempts
                    attempts = 1 + (scenario_idx // 5) % 3

                    def retry(f_, t_=a['timeout'], left=attempts):
                        kw_ = {'timeout': 2.5} if t_ else {}
                        d_ = conn.callRemote('/obj', 'Retry', interface='org.verif.I', destination='org.verif.P', **kw_)
                        if left > 1:
                            d_.addErrback(retry, t_, left - 1)
                            ctx.count('retries_that_retry_in_turn')
                        reentrant.append(clientfix.Outcome(d_))
                        retried.append(a['idx'])
                        return f_
                    d.addErrback(retry)
                calls[a['idx']] = {'o': clientfix.Outcome(d), 'replied': False, 'serial': None, 'timeout': a['timeout'],
                                   'd': d}
                for m in peer.take():
                    if m.fields.get('member') == 'M%d' % a['idx']:
                        calls[a['idx']]['serial'] = m.serial
                    elif m.fields.get('member') == 'Introspect':
                        pending_introspect.append(m)
            elif kind == 'dc':
                dcs[a['idx']] = Counter('dc%d' % a['idx'])
                conn.notifyOnDisconnect(dcs[a['idx']])
                if scenario_idx % 4 == 3:
                    # a one-shot listener that unregisters itself while it runs: the callbacks registered after it are
                    # still registered and must run
                    oneshot = Counter('oneshot-dc%d' % a['idx'])

                    def fire_once(c_, reason_, _cnt=oneshot):
                        _cnt(c_, reason_)
                        c_.cancelNotifyOnDisconnect(fire_once)
                    conn.notifyOnDisconnect(fire_once)
                    after = Counter('after-oneshot-dc%d' % a['idx'])
                    conn.notifyOnDisconnect(after)
                    dcs['o%d' % a['idx']] = oneshot
                    dcs['p%d' % a['idx']] = after
                if scenario_idx % 4 == 1:
                    # a callback registered and cancelled again must not run; the ones around it must
                    c_ = Counter('cancelled-dc%d' % a['idx'])
                    conn.notifyOnDisconnect(c_)
                    extra = Counter('after-cancelled-dc%d' % a['idx'])
                    if scenario_idx % 8 == 5 and not dcs.get(0) is None:
                        conn.cancelNotifyOnDisconnect(c_)
                        conn.notifyOnDisconnect(extra)
                    else:
                        conn.notifyOnDisconnect(extra)
                        conn.cancelNotifyOnDisconnect(c_)
                    cancelled.append(('connection', c_))
                    dcs['x%d' % a['idx']] = extra
                    # a listener object's METHOD registered and cancelled (each attribute access makes a new, equal,
                    # bound-method object), and one callable registered twice and cancelled once (still in force once)
                    l_ = Listener()
                    conn.notifyOnDisconnect(l_.on_lost)
                    conn.cancelNotifyOnDisconnect(l_.on_lost)
                    cancelled.append(('connection (bound method)', l_.counter))
                    twice = Counter('twice-dc%d' % a['idx'])
                    conn.notifyOnDisconnect(twice)
                    conn.notifyOnDisconnect(twice)
                    conn.cancelNotifyOnDisconnect(twice)
                    dcs['t%d' % a['idx']] = twice
                if a['idx'] == 0 and scenario_idx % 3 == 0:
                    # a listener that says goodbye on the dying connection (with and without a deadline): whatever it
                    # starts must be finished off by the same loss and nothing may fire later
                    def goodbye(c_, reason_):
                        for t_ in (None, 3.0):
                            kw_ = {'timeout': t_} if t_ else {}
                            d_ = c_.callRemote('/obj', 'Goodbye', interface='org.verif.I', destination='org.verif.P', **kw_)
                            if scenario_idx % 2 and t_:
                                # (it insists once when that fails)
                                def again(f_):
                                    reentrant.append(clientfix.Outcome(c_.callRemote(
                                        '/obj', 'GoodbyeAgain', interface='org.verif.I', destination='org.verif.P',
                                        timeout=4.0)))
                                    ctx.count('calls_reissued_from_a_goodbye_failure')
                                    return f_
                                d_.addErrback(again)
                            reentrant.append(clientfix.Outcome(d_))
                    conn.notifyOnDisconnect(goodbye)
            elif kind == 'proxy-explicit':
                attach_proxy(a['idx'], conn.getRemoteObject('org.verif.P', '/obj', explicit))
            elif kind == 'proxy-known':
                attach_proxy(a['idx'], conn.getRemoteObject('org.verif.P', '/obj', known_name))
            elif kind == 'proxy-introspect':
                attach_proxy(a['idx'], conn.getRemoteObject('org.verif.P', '/obj'))
                for m in peer.take():
                    if m.fields.get('member') == 'Introspect':
                        pending_introspect.append(m)
            elif kind == 'proxy-list':
                attach_proxy(a['idx'], conn.getRemoteObject('org.verif.P', '/obj', [known_name, 'org.verif.Unknown%d' % scenario_idx]))
                for m in peer.take():
                    if m.fields.get('member') == 'Introspect':
                        pending_introspect.append(m)
            elif kind == 'tick':
                try:
                    clock.advance(a['dt'])
                except Exception as e:
                    ctx.report('timer-callback-raised', 'a deadline timer raised %r' % e, w, case)
                ctx.count('deadlines_passed_before_loss', sum(1 for c_ in calls.values() if c_['o'].fired and
                                                                 c_['o'].results[0][0] == 'err' and
                                                                 isinstance(c_['o'].results[0][1].value, E.TimeOut)))
            elif kind == 'cancel':
                c = calls.get(a['idx'])
                if c and c['o'].fired == 0:
                    c['d'].cancel()
                    ctx.count('calls_cancelled_by_caller')
            elif kind == 'reply':
                c = calls.get(a['idx'])
                if c and c['serial'] and not c['replied']:
                    c['replied'] = True
                    if a['idx'] % 3 == 1:
                        return RM.build(RM.ERROR, 5, {'reply_serial': c['serial'], 'error_name': 'org.verif.Refused'})
                    if a['idx'] % 3 == 2:
                        return RM.build(RM.ERROR, 5, {'reply_serial': c['serial'], 'error_name': 'org.verif.Refused'}, 'i', [3])
                    return RM.build(RM.METHOD_RETURN, 5, {'reply_serial': c['serial']}, 's', ['r%d' % a['idx']])
            elif kind == 'answer-introspection':
                out = b''
                while pending_introspect:
                    m = pending_introspect.pop(0)
                    xml = IFACE_XML % ('org.verif.Unknown%d' % scenario_idx, known_name)
                    out += RM.build(RM.METHOD_RETURN, 6, {'reply_serial': m.serial}, 's', [xml])
                return out or None
            return None

        lost_at_step = None
        for si_, step in enumerate(steps):
            if si_ == lose_at:
                raw = None
                if partial:
                    raw = do(step)
                    if raw:
                        peer.send(raw[:min(partial, len(raw) - 1)])
                lost_at_step = si_
                break
            raw = do(step)
            if raw:
                peer.send(raw)
        if peer.ep.crashes:
            w['crash'] = repr(peer.ep.crashes[0])
            ctx.report('crash-before-loss', 'connection crashed with %r during the scripted traffic' % peer.ep.crashes[0],
                       w, case)
            return len(steps)
        # snapshot what is outstanding
        bystander = None
        if scenario_idx % 3 == 1:
            # another connection of the same process with work of its own: the loss of the first one is none of its business
            bystander = clientfix.Peer().ready()
            by_cb = Counter('bystander-dc')
            bystander.proto.notifyOnDisconnect(by_cb)
            by_call = clientfix.Outcome(bystander.proto.callRemote('/obj', 'Other', interface='org.verif.I',
                                                                   destination='org.verif.P'))
            bystander.take()
        outstanding_calls = [i for i, c in calls.items() if c['o'].fired == 0]
        done_before = {i: c['o'].fired for i, c in calls.items()}
        # calls that failure handlers issued BEFORE the loss (a handler retrying after an error reply or a passed deadline)
        # are ordinary calls: one that was concluded before the loss stays concluded, the others are failed by it
        concluded_before = [o for o in reentrant if o.fired]
        concluded_snapshot = [(o, o.fired, list(o.results)) for o in concluded_before]
        live_proxies = [i for i, p in proxies.items() if p['obj'] is not None]
        pending_proxies = [i for i, p in proxies.items() if p['obj'] is None and p['d'].fired == 0]
        peer.lose(loss)
        try:
            clock.advance(100000)
        except Exception as e:
            ctx.report('timer-callback-raised', 'a timer raised %r after the connection was lost' % e, w, case)
        if bystander is not None:
            if by_cb.calls or by_call.fired:
                ctx.report('bystander-connection-affected', 'the loss of one connection ran a disconnect callback (%d times) or '
                           'completed a call (%d times) of ANOTHER connection of the process' % (len(by_cb.calls), by_call.fired),
                           w, case)
            else:
                by_loss = Failure(ConnectionLost('bystander loss'))
                bystander.lose(by_loss)
                if len(by_cb.calls) != 1 or by_call.fired != 1:
                    ctx.report('bystander-connection-affected', 'after another connection had been lost, this one\'s own loss '
                               'ran its callback %d times and completed its call %d times' % (len(by_cb.calls), by_call.fired),
                               w, case)
                else:
                    ctx.count('bystander_connections_ok')
            try:
                clock.advance(100000)
            except Exception as e:
                ctx.report('timer-callback-raised', 'a timer of the bystander connection raised %r' % e, w, case)
        w['outstanding_calls'] = outstanding_calls
        w['live_proxies'] = live_proxies
        w['pending_proxies'] = pending_proxies
        if peer.ep.crashes:
            w['crash'] = repr(peer.ep.crashes[0])
            reentry = retried and isinstance(peer.ep.crashes[0], RuntimeError)
            ctx.report('loss-flush-reentrancy' if reentry else 'connectionLost-raised', 'connectionLost raised %r%s' % (
                peer.ep.crashes[0], ' (the failure handler of call %s issued another call while the outstanding calls were '
                'being failed)' % retried if reentry else ''), w, case)
            if reentry:
                return len(steps)
        for i, c in calls.items():
            if c['o'].fired != 1:
                ctx.report('call-fired-%d-times' % c['o'].fired, 'call %d (timeout %s) fired %d times around the loss' % (
                    i, c['timeout'], c['o'].fired), w, case)
            elif i in outstanding_calls:
                k, v = c['o'].results[0]
                if not (k == 'err' and (v is loss or v.value is loss.value)):
                    ctx.report('call-wrong-failure', 'outstanding call %d completed with %s %r instead of the loss reason'
                               % (i, k, repr(v)[:100]), w, case)
                else:
                    ctx.count('calls_failed_by_loss')
        for o, fired_, results_ in concluded_snapshot:
            if o.fired != fired_ or fired_ != 1:
                ctx.report('call-fired-%d-times' % o.fired, 'a call issued and concluded before the loss (by the failure handler '
                           'of another call) fired %d times before and %d times after it' % (fired_, o.fired), w, case)
                break
            ctx.count('retry_calls_concluded_before_the_loss')
        for o in reentrant:
            if any(o is o_ for o_ in concluded_before):
                continue
            if o.fired != 1 or o.results[0][0] != 'err' or not (o.results[0][1] is loss or o.results[0][1].value is loss.value):
                w['reentrant'] = [[(k_, repr(v_.value if k_ == 'err' else v_)[:80]) for k_, v_ in x.results] for x in reentrant]
                w['retried_calls'] = retried
                ctx.report('reentrant-call-from-proxy-callback' if proxy_reentry and not retried else 'reentrant-call',
                           'a call issued %s was not finished off by the loss (fired %d times: %r)' % (
                    'by the failure handler of another call while the lost connection was failing its calls' if retried
                    else 'by a proxy-level disconnect callback' if proxy_reentry
                    else 'by a connection-level disconnect callback', o.fired, w['reentrant']), w, case)
                break
        else:
            if reentrant:
                ctx.count('reentrant_calls_failed_by_loss', len(reentrant))
        if registry_cbs:
            for name_, cnt_ in registry_cbs.items():
                if len(cnt_.calls) != 1:
                    w['registry_callbacks'] = {n_: len(c_.calls) for n_, c_ in registry_cbs.items()}
                    ctx.report('proxy-callback-count', 'disconnect callback of a proxy that was alive when the connection was '
                               'lost (its last reference is dropped by another proxy\'s callback during the loss) ran %d '
                               'times: %r' % (len(cnt_.calls), w['registry_callbacks']), w, case)
                    break
            else:
                if registry_cbs:
                    ctx.count('registry_proxies_notified', len(registry_cbs))
            for late in late_lookups:
                if len(late.calls) > 1:
                    ctx.report('proxy-callback-count', 'a proxy looked up during the loss was notified %d times' % len(late.calls),
                               w, case)
        for level, cb in cancelled:
            if cb.calls:
                ctx.report('cancelled-callback-ran', 'a %s-level disconnect callback that had been cancelled ran %d times' % (
                    level, len(cb.calls)), w, case)
                break
            ctx.count('cancelled_callbacks_silent')
        for i, cb in dcs.items():
            if str(i).startswith('p') and len(cb.calls) != 1:
                ctx.report('callback-skipped-after-self-cancel', 'a connection-level disconnect callback registered after a '
                           'listener that unregisters itself while running ran %d times' % len(cb.calls), w, case)
            elif len(cb.calls) != 1 or not (cb.calls[0][0] is conn and cb.calls[0][1] is loss):
                ctx.report('connection-callback-count', 'connection-level disconnect callback %d ran %d times' % (
                    i, len(cb.calls)), w, case)
            else:
                ctx.count('connection_callbacks_ok')
        for i in live_proxies:
            p = proxies[i]
            kinds = dict((a_['idx'], k_) for k_, a_ in steps if 'idx' in a_ and k_.startswith('proxy'))
            if p.get('oneshot') is not None and len(p['oneshot'].calls) != 1:
                ctx.report('proxy-callback-count', 'self-cancelling disconnect callback of live proxy %d ran %d times' % (
                    i, len(p['oneshot'].calls)), w, case)
            elif len(p['cb'].calls) != 1 and p.get('oneshot') is not None:
                ctx.report('callback-skipped-after-self-cancel', 'a disconnect callback registered on proxy %d after a '
                           'listener that unregisters itself while running ran %d times' % (i, len(p['cb'].calls)), w, case)
            elif len(p['cb'].calls) != 1 or not (p['cb'].calls[0][0] is p['obj'] and p['cb'].calls[0][1] is loss):
                w['proxy_kind'] = kinds.get(i)
                ctx.report(classify_proxy(kinds.get(i), i, steps), 'disconnect callback of live proxy %d (%s) ran %d times' % (
                    i, kinds.get(i), len(p['cb'].calls)), w, case)
            else:
                ctx.count('proxy_callbacks_ok')
                ctx.count('proxy_ok_' + str(kinds.get(i)))
        for i in pending_proxies:
            p = proxies[i]
            if p['d'].fired != 1 or p['d'].results[0][0] != 'err':
                ctx.report('pending-proxy', 'getRemoteObject pending at the loss fired %d times (%r)' % (
                    p['d'].fired, [k for k, _ in p['d'].results]), w, case)
        for i, p in proxies.items():
            if p['d'].fired > 1:
                ctx.report('proxy-deferred-twice', 'getRemoteObject Deferred %d fired %d times' % (i, p['d'].fired), w, case)
            if p['d'].fired == 1 and p['d'].results[0][0] == 'err' and i not in pending_proxies:
                ctx.report(classify_proxy_failure(p['d'].results[0][1]), 'getRemoteObject %d failed although the peer '
                           'answered: %r' % (i, repr(p['d'].results[0][1].value)[:120]), w, case)
        live = [dc for dc in clock.getDelayedCalls() if dc.active()]
        if live:
            ctx.report('timer-left', '%d timers live after the loss' % len(live), w, case)
        # nothing fires afterwards
        before = (sum(c['o'].fired for c in calls.values()), sum(len(cb.calls) for cb in dcs.values()),
                  sum(len(p['cb'].calls) for p in proxies.values()))
        peer.ep.lost = 0
        try:
            conn.connectionLost(loss)           # a second notification must not happen in reality; not judged
        except Exception:
            pass
        return len(steps)
    finally:
        I.DBusInterface.knownInterfaces.clear()
        I.DBusInterface.knownInterfaces.update(saved_known)


def classify_proxy(kind, idx, steps):
    return None


def classify_proxy_failure(f):
    return None


def part_b(ctx, si, sn, quick):
    nsc = (200 if quick else 2000)
    for sc in range(nsc):
        if sc % sn != si:
            continue
        nsteps = len(traffic_steps(None, sc))
        for lose_at in range(0, nsteps + 1):
            for partial in (0, 1, 17, 60):
                established_case(ctx, sc, lose_at, partial, {'kind': 'established', 'scenario': sc, 'lose_at': lose_at,
                                                             'partial': partial})
                ctx.count('loss_points')
                ctx.distinct('nontrivial_cases', ('loss', sc, lose_at, partial))
        if ctx.stop_early() or ctx.out_of_time():
            break


def resend_from_reply_handler(ctx):
    """A prepared call message (callRemoteMessage) whose reply handler sends the very same message object again - a poller
    re-issuing its request, a retry after an error reply - so the new call is registered under the serial of the one being
    completed.  The re-sent call is outstanding when the connection is lost: it fails once with the loss reason and its
    deadline timer is gone."""
    from txdbus import message as MSG
    case = {'kind': 'resend-in-handler'}
    for variant in ('after-return', 'after-error'):
        for timeout in (None, 4.0):
            clock = clientfix.install_clock()
            peer = clientfix.Peer().ready()
            conn = peer.proto
            peer.take()
            loss = Failure(ConnectionLost('verif loss after re-send'))
            mcall = MSG.MethodCallMessage('/obj', 'Poll', interface='org.verif.I', destination='org.verif.P')
            second = []

            def again(res, _m=mcall, _t=timeout):
                second.append(clientfix.Outcome(conn.callRemoteMessage(_m, _t)))
                return None
            first = conn.callRemoteMessage(mcall, timeout)
            first.addBoth(again)
            out1 = clientfix.Outcome(first)
            sent = [m for m in peer.take() if m.fields.get('member') == 'Poll']
            ctx.count('evaluations')
            ctx.count('resend_in_handler_scenarios')
            w = {'variant': variant, 'timeout': timeout}
            if len(sent) != 1:
                ctx.report(None, 'callRemoteMessage wrote %d messages' % len(sent), w, case)
                return
            if variant == 'after-return':
                peer.send(RM.build(RM.METHOD_RETURN, 40, {'reply_serial': sent[0].serial}, 's', ['first']))
            else:
                peer.send(RM.build(RM.ERROR, 40, {'reply_serial': sent[0].serial, 'error_name': 'org.verif.Busy'}, 's', ['busy']))
            resent = [m for m in peer.take() if m.fields.get('member') == 'Poll']
            if len(second) != 1 or len(resent) != 1 or second[0].fired:
                ctx.report(None, 'the handler re-sent the message: %d sends, %d written, completed early %r' % (
                    len(second), len(resent), second[0].results if second else None), w, case)
                return
            peer.lose(loss)
            try:
                clock.advance(1000)
            except Exception as e:
                ctx.report('timer-callback-raised', 'a timer raised %r after the loss (a call re-sent from its own reply '
                           'handler was outstanding)' % e, w, case)
                return
            o = second[0]
            w['resent_call'] = [(k, repr(v.value if k == 'err' else v)[:80]) for k, v in o.results]
            if o.fired != 1 or o.results[0][0] != 'err' or o.results[0][1].value is not loss.value:
                ctx.report('resent-call-not-failed-by-loss', 'a call re-sent from inside its own reply handler (same message '
                           'object, same serial) was outstanding when the connection was lost and completed %r' % (
                               w['resent_call'],), w, case)
                return
            if conn._pendingCalls or clock.getDelayedCalls():
                ctx.report('timer-after-loss', 'after the loss: %d pending entries, %d timers' % (
                    len(conn._pendingCalls), len(clock.getDelayedCalls())), w, case)
                return
            ctx.count('resent_calls_failed_by_loss')


def run(ctx):
    si, sn = ctx.shard or (0, 1)
    quick = ctx.tier == 'quick'
    ctx.rule = ('(a) connect() on a MemoryReactorClock: %d server behaviours x {UNIX, TCP} with the server->client stream cut '
                'after every byte; address lists of 1-4 entries (unix path/abstract, tcp, nonce-tcp) x every reachability '
                'mask; (b) scripted traffic on an established connection (0-4 calls with/without deadline, connection and '
                'proxy disconnect callbacks, proxies by explicit interface / known name / introspection / list, two live '
                'proxies per object) lost before every step and inside partially delivered replies. distinct_nontrivial = '
                'distinct fault points' % len(BEHAVIOURS))
    ctx.budget(60 if quick else 540)
    part_a(ctx, si, sn, quick)
    ctx.exhaustive = not ctx.truncated
    part_b(ctx, si, sn, quick)
    if si == 0:
        synchronous_loss(ctx)
        resend_from_reply_handler(ctx)
    ctx.sample({'address': ENTRIES[0][0] + ';' + ENTRIES[2][0], 'mask': [False, True], 'behaviour': 'second-mechanism',
                'cut': 37})
    ctx.sample({'established_steps': [[k, a] for k, a in traffic_steps(None, 3)], 'lose_at': 4, 'partial': 17})
    ctx.require(ctx.counters.get('connect_ok', 0) > 5, 'no successful connect observed')
    ctx.require(ctx.counters.get('connect_err', 0) > 50, 'too few failing connects')
    ctx.require(ctx.counters.get('calls_failed_by_loss', 0) > 20 or sn > 1, 'too few in-flight calls failed by a loss')
    ctx.require(ctx.counters.get('proxy_callbacks_ok', 0) > 20 or sn > 1 or ctx.n_new_violations() or ctx.known_hits,
                'proxy disconnect callbacks never observed')


def replay(ctx, rp):
    case = rp['case']
    if case['kind'] == 'established':
        established_case(ctx, case['scenario'], case['lose_at'], case['partial'], case)
    elif case['kind'] == 'resend-in-handler':
        resend_from_reply_handler(ctx)
    elif case['kind'] == 'connect':
        part_a_full(ctx)
        connect_case(ctx, case['entries'], case['mask'], case['behaviour'], case['cut'], case,
                     fail_kind=case.get('fail_kind', 0))
    else:
        part_a_full(ctx)


def part_a_full(ctx):
    for b in BEHAVIOURS:
        for unix_idx, unix in ((0, True), (2, False)):
            if b in FAILING:
                continue
            FULL[(b, unix)] = connect_case(ctx, [unix_idx], [True], b, None, {'kind': 'connect-full'})
