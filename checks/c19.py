"""
C19 — signatures split into complete types; inferred variant types always encode.

(a) list(genCompleteTypes(sig)) equals the grammar's decomposition for every valid signature
    up to a length bound (exhaustive) and random ones up to 255 bytes at the nesting limits;
    interface.Method / Signal argument counts agree with the reference count.
(b) sigFromPy(value) is one single complete type, wrapper classes select exactly their type,
    and the value round-trips through marshal('v')/unmarshal under Python equality, for values
    whose containers are homogeneous in DBus type or heterogeneous in Python type.
"""
import random

from harness import steps
from harness import gen, ref_codec as R, ref_grammar as G, selfcheck
from txdbus import interface as I
from txdbus import marshal as M

PROP = 'C19'
LEVEL = 'exploration'
SHARDS = {'thorough': 16}


def check_split(ctx, sig, origin):
    ctx.count('evaluations')
    ctx.count('split_cases')
    want = G.split_signature(sig)
    case = {'kind': 'split', 'sig': sig}
    try:
        got = list(M.genCompleteTypes(sig))
    except Exception as e:
        ctx.report(None, 'genCompleteTypes(%r) raised %r on a valid signature' % (sig, e), case, case)
        return
    if got != want:
        ctx.report('split-differs', 'genCompleteTypes(%r) = %r, grammar decomposition is %r' % (sig, got, want),
                   {'sig': sig, 'got': got, 'want': want, 'origin': origin}, case)
    if len(want) > 1 or any(c in sig for c in 'a({'):
        ctx.distinct('nontrivial_cases', sig if len(sig) < 40 else hash(sig))


def check_counts(ctx, sig_in, sig_out):
    ctx.count('evaluations')
    ctx.count('count_cases')
    case = {'kind': 'counts', 'in': sig_in, 'out': sig_out}
    try:
        m = I.Method('M', arguments=sig_in, returns=sig_out)
        s = I.Signal('S', arguments=sig_in)
        i = I.DBusInterface('org.verif.C19', m, s, noRegister=True)
    except Exception as e:
        ctx.report(None, 'declaring a method with %r/%r raised %r' % (sig_in, sig_out, e), case, case)
        return
    want = (len(G.split_signature(sig_in)), len(G.split_signature(sig_out)))
    got = (i.methods['M'].nargs, i.methods['M'].nret)
    if got != want or i.signals['S'].nargs != want[0]:
        ctx.report('arg-count', 'argument counts for %r/%r: txdbus %r/%r, grammar %r' % (
            sig_in, sig_out, got, i.signals['S'].nargs, want), case, case)


# ------------------------------------------------------------------ python values

FAMILIES = ['int', 'float', 'str', 'bytes', 'list', 'tuple', 'dict']
WRAP = {'y': 'Byte', 'b': 'Boolean', 'n': 'Int16', 'q': 'UInt16', 'i': 'Int32', 'u': 'UInt32', 'x': 'Int64',
        't': 'UInt64', 'g': 'Signature', 'o': 'ObjectPath'}


class PyGen:
    """Builds Python values inside the statement's domain, together with a description."""

    def __init__(self, rng):
        self.r = rng

    def leaf(self, fam=None, small=False):
        r = self.r
        fam = fam or r.choice(['int', 'int', 'float', 'str', 'bytes', 'wrap', 'bool', 'bigint'])
        if fam == 'bool':
            return r.random() < 0.5
        if fam == 'int':
            if small:
                return r.randint(0, 100)
            return r.choice([0, 1, -1, 2**31 - 1, -2**31, r.randint(-2**31, 2**31 - 1)])
        if fam == 'bigint':
            return r.choice([2**31, -2**31 - 1, 2**63 - 1, -2**63, 2**40, r.randint(2**31, 2**63 - 1)])
        if fam == 'float':
            return r.choice(gen.DOUBLES[:6] + [r.random() * 1e6])
        if fam == 'str':
            return r.choice(gen.STRINGS[:22])
        if fam == 'bytes':
            return bytearray(r.randrange(256) for _ in range(r.randint(0, 5)))
        if fam == 'wrap':
            code = r.choice('ybnqiuxtgo')
            cls = getattr(M, WRAP[code])
            if code in 'go':
                return cls(r.choice(['i', 'a{sv}', '']) if code == 'g' else r.choice(gen.PATHS))
            if code == 'b':
                return cls(r.random() < 0.5)
            lo, hi = gen.INT_RANGE[code]
            return cls(r.choice([lo, hi, r.randint(lo, hi)]) if not small else r.randint(0, 100))
        raise ValueError(fam)

    def recipe(self, depth):
        """A generation recipe: ('leaf', fam) | ('list', elem-recipe) | ('hlist',) | ('tuple', [recipes]) |
        ('dict', keyfam, value-recipe) | ('hdict', keyfam)."""
        r = self.r
        if depth <= 0 or r.random() < 0.35:
            fam = r.choice(['int', 'float', 'str', 'bytes', 'wrap', 'bool', 'bigint'])
            return ('leaf', fam, r.choice('ybnqiuxtgo'))
        k = r.random()
        if k < 0.3:
            return ('list', self.recipe(depth - 1))
        if k < 0.45:
            return ('hlist',)
        if k < 0.7:
            return ('tuple', [self.recipe(depth - 1) for _ in range(r.randint(1, 3))])
        if k < 0.9:
            return ('dict', r.choice(['str', 'int', 'wrapkey:' + r.choice('ynqux')]), self.recipe(depth - 1))
        return ('hdict', r.choice(['str', 'int']))

    def build(self, rc, nested=False, fixed=None):
        """fixed: dict carrying choices that must be identical for all siblings sharing this recipe
        (wrapper class, big-vs-small int) so that they share one DBus type."""
        r = self.r
        kind = rc[0]
        if kind == 'leaf':
            fam = rc[1]
            if fam == 'wrap':
                # siblings share the recipe and therefore the wrapper class
                code = rc[2]
                cls = getattr(M, WRAP[code])
                if code == 'g':
                    return cls(r.choice(['i', 'a{sv}', '', '(ii)']))
                if code == 'o':
                    return cls(r.choice(gen.PATHS))
                if code == 'b':
                    return cls(r.random() < 0.5)
                lo, hi = gen.INT_RANGE[code]
                return cls(r.choice([lo, hi, r.randint(lo, hi)]))
            return self.leaf(fam)
        if kind == 'list':
            n = r.randint(1 if nested else 0, 4)
            return [self.build(rc[1], True) for _ in range(n)]
        if kind == 'hlist':
            return self.hetero_items()
        if kind == 'tuple':
            return tuple(self.build(x, nested) for x in rc[1])
        if kind == 'dict':
            n = r.randint(1 if nested else 0, 4)
            d = {}
            for i in range(n):
                d[self.key(rc[1], i, rc)] = self.build(rc[2], True)
            return d
        if kind == 'hdict':
            items = self.hetero_items()
            return {self.key(rc[1], i, rc): v for i, v in enumerate(items)}
        raise ValueError(rc)

    def key(self, fam, i, rc):
        r = self.r
        if fam == 'str':
            return 'k%d%s' % (i, r.choice(['', 'é', '_x']))
        if fam == 'int':
            return i * 7 - 3
        code = fam.split(':')[1]
        return getattr(M, WRAP[code])(i + 1)

    def hetero_items(self):
        """>= 2 elements of pairwise different Python type families; inference must yield variants."""
        r = self.r
        fams = r.sample(FAMILIES, r.randint(2, 4))
        out = []
        for f in fams:
            if f in ('int', 'float', 'str', 'bytes'):
                out.append(self.leaf(f))
            elif f == 'list':
                out.append(self.build(('list', ('leaf', r.choice(['int', 'str', 'float']))), True))
            elif f == 'tuple':
                out.append(self.build(('tuple', [('leaf', 'int'), ('leaf', 'str')])))
            elif f == 'dict':
                out.append(self.build(('dict', 'str', ('leaf', r.choice(['int', 'str']))), True))
        return out


def mixed_int_family(r):
    """Elements that differ in Python type but share the int base type (small values)."""
    pool = [lambda: r.randint(0, 100), lambda: r.random() < 0.5, lambda: M.Byte(r.randint(0, 100)),
            lambda: M.Int16(r.randint(0, 100)), lambda: M.UInt32(r.randint(0, 100)), lambda: M.Boolean(r.random() < 0.5)]
    return [r.choice(pool)() for _ in range(r.randint(2, 5))]


def mixed_str_family(r):
    pool = [lambda: r.choice(['a', 'é', '']), lambda: M.ObjectPath(r.choice(gen.PATHS)),
            lambda: M.Signature(r.choice(['i', 'ai']))]
    return [r.choice(pool)() for _ in range(r.randint(2, 5))]


def check_value(ctx, v, case, desc):
    ctx.count('evaluations')
    ctx.count('value_cases')
    w = {'value': repr(v)[:500], 'recipe': desc}
    try:
        sig = M.sigFromPy(v)
    except Exception as e:
        ctx.report(None, 'sigFromPy raised %r for a value in the claimed domain' % e, w, case)
        return
    w['inferred'] = sig
    if not G.is_single_complete_type(sig):
        ctx.report('inferred-not-single', 'sigFromPy(%s) = %r is not one single complete type' % (w['value'][:80], sig),
                   w, case)
        return
    for little in (True, False):
        try:
            n, chunks = M.marshal('v', [v], 0, little)
            data = b''.join(chunks)
        except Exception as e:
            ctx.report(classify_encode(v, sig, e), 'value does not encode under its inferred signature %r: %r' % (sig, e),
                       w, case)
            return
        # decoded under a step budget (very generous: 4000 interpreter steps per byte): a decoder that spins on what the
        # encoder wrote would otherwise hang the run instead of being reported
        outcome, val, _ = steps.METER.run(2000000 + 4000 * len(data), M.unmarshal, 'v', data, 0, little)
        if outcome == 'budget':
            ctx.report('decode-does-not-finish', 'decoding the encoded variant (%r, %d bytes) exceeded %d interpreter '
                       'steps' % (sig, len(data), 2000000 + 4000 * len(data)), w, case)
            return
        if outcome != 'ok':
            ctx.report(None, 'encoded variant (%r) does not decode: %r' % (sig, val), w, case)
            return
        n2, out = val
        expect = gen.normalise_any(v)
        if not R.plain_eq(out[0], expect):
            w['decoded'] = repr(out[0])[:500]
            ctx.report(classify_value(v, sig), 'variant round trip under inferred %r changed the value' % sig, w, case)
            return
        # the wire must carry the inferred signature and be valid DBus
        try:
            typed, end = R.decode('v', data, 0, little)
            if typed[0].sig != sig or end != len(data):
                ctx.report('wire-signature', 'variant on the wire carries %r, inferred %r' % (typed[0].sig, sig), w, case)
        except R.CodecError as e:
            ctx.report('not-wire-format', 'variant bytes for inferred %r are not valid DBus: %s' % (sig, e), w, case)
            return
    ctx.distinct('inferred_signatures', sig)
    if any(c in sig for c in 'a({'):
        ctx.distinct('nontrivial_cases', ('val', sig))


def classify_encode(v, sig, e):
    return None


def classify_value(v, sig):
    return None


def value_case(seed, idx):
    r = random.Random('%s/c19val/%s' % (seed, idx))
    pg = PyGen(r)
    k = r.random()
    if k < 0.1:
        v = mixed_int_family(r)
        desc = 'mixed-int-family list'
    elif k < 0.2:
        v = mixed_str_family(r)
        desc = 'mixed-str-family list'
    elif k < 0.25:
        d = mixed_int_family(r)
        v = {'k%d' % i: x for i, x in enumerate(d)}
        desc = 'dict with mixed-int-family values'
    else:
        rc = pg.recipe(r.choice([1, 2, 3]))
        v = pg.build(rc)
        desc = repr(rc)[:200]
    return v, desc


def wrappers(ctx):
    for code, name in WRAP.items():
        cls = getattr(M, name)
        val = cls('/a') if code == 'o' else cls('ai') if code == 'g' else cls(1)
        ctx.count('evaluations')
        ctx.count('wrapper_cases')
        case = {'kind': 'wrapper', 'code': code}
        got = M.sigFromPy(val)
        if got != code:
            ctx.report('wrapper-type', 'wrapper %s selects %r instead of %r' % (name, got, code), case, case)
        check_value(ctx, val, case, 'wrapper ' + name)
        check_value(ctx, [val, val], case, 'list of wrapper ' + name)
        check_value(ctx, (val, 1, 'x'), case, 'tuple with wrapper ' + name)
        # ... in every position: as list element, dictionary value and dictionary KEY the wrapper selects its type
        for container, want_sig in (([val], 'a' + code), ({'k': val}, 'a{s%s}' % code), ({val: 5}, 'a{%si}' % code),
                                    ([{val: 'x'}], 'aa{%ss}' % code), (({val: [val]},), '(a{%sa%s})' % (code, code))):
            if code in 'v' or (isinstance(container, dict) and val in container and code == 'd'):
                continue
            try:
                got = M.sigFromPy(container)
            except Exception as e:
                got = repr(e)
            ctx.count('evaluations')
            ctx.count('wrapper_position_cases')
            if got != want_sig:
                ctx.report('wrapper-type', 'wrapper %s inside %r: inferred %r, the wrapper selects %r' % (
                    name, type(container).__name__, got, want_sig), {'value': repr(container)}, case)
            else:
                check_value(ctx, container, case, 'wrapper %s in a %s' % (name, type(container).__name__))
    # sizes around the one-byte length of a SIGNATURE: wrapper values and inferred signatures of 126..255 characters
    for n in (126, 127, 128, 129, 200, 254, 255):
        case = {'kind': 'long-signature', 'n': n}
        ctx.count('long_signature_cases')
        check_value(ctx, M.Signature('i' * n), case, 'Signature wrapper of %d characters' % n)
        check_value(ctx, [M.Signature('y' * n), M.Signature('ai')], case, 'list with a Signature of %d characters' % n)
        if n <= 253:
            check_value(ctx, tuple(range(n)), case, 'tuple of %d integers (inferred signature of %d characters)' % (n, n + 2))
            check_value(ctx, ('x', tuple('s%d' % k for k in range(n - 3))), case, 'nested wide tuple')
    for v, want in [(True, 'b'), (1, 'i'), (1.5, 'd'), ('s', 's'), (bytearray(b'ab'), 'ay'), ([], 'av'), ({}, 'a{sv}'),
                    ([1, 2], 'ai'), ((1, 's'), '(is)'), ({'a': 1}, 'a{si}'), ([1, 'a'], 'av'), ({'a': 1, 'b': 'x'}, 'a{sv}')]:
        ctx.count('evaluations')
        got = M.sigFromPy(v)
        if got != want:
            ctx.report('documented-inference', 'sigFromPy(%r) = %r, documented %r' % (v, got, want),
                       {'value': repr(v)}, {'kind': 'doc'})


def run(ctx):
    steps.METER.install()
    ctx.note('reference_selfcheck', selfcheck.check_grammar())
    si, sn = ctx.shard or (0, 1)
    bounds = [('iv', 9), ('isv', 7)] if ctx.tier == 'quick' else [('iv', 11), ('isv', 9), ('yqixsvh', 5)]
    ctx.rule = ('(a) every valid signature over alphabets %r (length bounds) split by genCompleteTypes vs the grammar '
                'decomposition, random signatures to 255 bytes at nesting limits, Method/Signal argument counts; '
                '(b) generated Python values (homogeneous-in-DBus-type or heterogeneous-in-Python-type containers, '
                'wrappers, ints inside and outside int32) through sigFromPy and a variant round trip in both byte '
                'orders. distinct_nontrivial = distinct multi-type/container signatures + distinct inferred container '
                'signatures' % (bounds,))
    n = 0
    for alpha, L in bounds:
        for sig in G.enumerate_signatures(L, alpha):
            n += 1
            if n % sn != si:
                continue
            check_split(ctx, sig, 'enum')
            if n % 97 == 0:
                check_counts(ctx, sig, sig[::1])
    ctx.note('exhaustive_bounds', [{'alphabet': a, 'max_len': L} for a, L in bounds])
    ctx.exhaustive = True
    r = ctx.rng
    g = gen.Gen(r, max_depth=5)
    nrand = (3000 if ctx.tier == 'quick' else 60000) // sn
    for i in range(nrand):
        k = r.random()
        if k < 0.3:
            sig = g.deep_signature()
        else:
            parts = []
            total = 0
            lim = r.choice([20, 100, 255])
            while True:
                p = g.single(depth=r.choice([1, 3, 6]), budget=r.choice([10, 40, 120]))
                if total + len(p) > lim:
                    break
                parts.append(p)
                total += len(p)
            sig = ''.join(parts)
        if not G.valid_signature(sig):
            continue
        check_split(ctx, sig, 'random')
        if i % 5 == 0 and len(sig) < 120:
            check_counts(ctx, sig, g.signature())
        if i < 2:
            ctx.sample({'signature': sig, 'decomposition': G.split_signature(sig)})
    if si == 0:
        wrappers(ctx)
        refused_then_repaired(ctx)
        dictionary_key_types(ctx)
    nval = (8000 if ctx.tier == 'quick' else 200000) // sn
    for i in range(nval):
        idx = i * sn + si
        v, desc = value_case(ctx.seed, idx)
        check_value(ctx, v, {'kind': 'value', 'idx': idx}, desc)
        if i < 3:
            ctx.sample({'value': repr(v)[:200], 'inferred': _safe_sig(v)})
        if ctx.stop_early():
            break
    ctx.require(ctx.counters.get('split_cases', 0) > 1000, 'too few split cases')
    ctx.require(ctx.counters.get('value_cases', 0) > 500, 'too few value cases')


def refused_then_repaired(ctx):
    """A value that cannot travel (an element has no DBus type) is refused; the same container repaired in place, and
    fresh containers built afterwards, are ordinary values again: what a refusal leaves behind must not change what is
    inferred and encoded later."""
    BAD = None
    shapes = [
        (lambda: [BAD], lambda c: c.__setitem__(0, 5)),
        (lambda: {'icon': BAD}, lambda c: c.__setitem__('icon', 'x')),
        (lambda: [[BAD]], lambda c: c[0].__setitem__(0, 'y')),
        (lambda: {'a': [BAD]}, lambda c: c['a'].__setitem__(0, 1.5)),
        (lambda: [{'k': BAD}], lambda c: c[0].__setitem__('k', True)),
        (lambda: {'outer': {'inner': BAD}}, lambda c: c['outer'].__setitem__('inner', 7)),
        (lambda: [[1, 2], [BAD]], lambda c: c[1].__setitem__(0, 3)),
        (lambda: [('t', [BAD])], None),
        (lambda: ('title', [BAD]), None),
    ]
    for rounds in range(3):
        for k, (mk, repair) in enumerate(shapes):
            case = {'kind': 'refused-then-repaired', 'shape': k}
            c = mk()
            ctx.count('evaluations')
            try:
                M.marshal('v', [c])
                ctx.count('unrepresentable_value_encoded')        # not judged here
            except Exception:
                ctx.count('refusals')
            if repair is not None:
                repair(c)
                check_value(ctx, c, case, 'container refused once, repaired in place: %r' % (c,))
                ctx.count('repaired_values')
            del c
            # fresh ordinary containers right after the refusal (the refused ones are garbage by now)
            for j in range(40):
                fresh = [[j], {'k': j}, (j, [j]), [[j, j + 1]], {'a': [j]}, [{'k': j}]][j % 6]
                check_value(ctx, fresh, case, 'fresh value after a refusal: %r' % (fresh,))
            ctx.count('fresh_values_after_refusal', 40)


def dictionary_key_types(ctx):
    """Dictionaries keyed by every basic type - float keys included (DOUBLE is a basic type and a legal dict-entry key) -
    alone and nested: homogeneous containers, so each encodes under its inferred signature and comes back equal."""
    keys = [1.5, 0.0, -2.25, True, 7, 2 ** 40, 'k', M.Byte(3), M.Int16(-4), M.UInt16(5), M.UInt32(6), M.Int64(-7), M.UInt64(8),
            M.ObjectPath('/a'), M.Signature('ai')]
    for k in keys:
        for v in (1, 'text', [1, 2], {'inner': 2}, 2.5, (1, 'x')):
            for shape in (lambda d: d, lambda d: [d], lambda d: {'outer': d}, lambda d: ('s', d)):
                val = shape({k: v})
                check_value(ctx, val, {'kind': 'dict-keys'}, 'dictionary keyed by %s' % type(k).__name__)
                ctx.count('dictionary_key_type_cases')


def _safe_sig(v):
    try:
        return M.sigFromPy(v)
    except Exception as e:
        return repr(e)


def replay(ctx, rp):
    steps.METER.install()
    case = rp['case']
    if case['kind'] == 'split':
        check_split(ctx, case['sig'], 'replay')
    elif case['kind'] == 'counts':
        check_counts(ctx, case['in'], case['out'])
    elif case['kind'] == 'value':
        v, desc = value_case(rp.get('seed', 0), case['idx'])
        check_value(ctx, v, case, desc)
    elif case['kind'] == 'dict-keys':
        dictionary_key_types(ctx)
    elif case['kind'] == 'refused-then-repaired':
        refused_then_repaired(ctx)
    else:
        wrappers(ctx)
