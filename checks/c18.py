"""
C18 — name and path validators accept exactly the DBus grammar.

Oracle: harness.ref_grammar (hand-written from the specification).  The real
validators are driven over (a) every string up to length L over a 9-class alphabet,
(b) random long strings and the 255/256 boundary, (c) the message constructors.
"""
import itertools
import signal

from harness import ref_grammar as G
from txdbus import marshal, message
from txdbus.error import MarshallingError

PROP = 'C18'
LEVEL = 'exploration'
SHARDS = {'thorough': 16}

ALPHABET = ['a', '1', '_', '.', '-', ':', '/', 'é', ' ']
CLASS = {'a': 'L', '1': 'D', '_': 'U', '.': '.', '-': '-', ':': ':', '/': '/', 'é': 'N', ' ': 'S'}

VALIDATORS = [
    ('object_path', 'validateObjectPath'),
    ('interface', 'validateInterfaceName'),
    ('error', 'validateErrorName'),
    ('bus', 'validateBusName'),
    ('member', 'validateMemberName'),
]


class _Abort(Exception):
    pass


class ValidatorStuck(Exception):
    """One validator call has been running across two ticks of the CPU-time guard."""


# CPU-time guard.  Accepting or rejecting a name of a few hundred characters takes microseconds; a validator that burns
# more than GUARD_TICK seconds of this process's own CPU time on ONE such string does not, for any practical purpose,
# answer at all ("rejects every other string with a marshalling error" is then false for that string).  The timer counts
# the process's user CPU time (ITIMER_VIRTUAL), not the wall clock, so a loaded machine cannot make it fire; the
# regular-expression engine polls for signals while it backtracks, so the handler's exception ends the call.
GUARD_TICK = 5.0
_guard = {'call': 0, 'active': False, 'seen': None, 'armed': False}


def _guard_tick(signum, frame):
    if _guard['active'] and _guard['seen'] == _guard['call']:
        _guard['seen'] = None
        _guard['stuck'] = _guard['call']
        raise ValidatorStuck()
    _guard['seen'] = _guard['call'] if _guard['active'] else None


def arm_guard():
    if not _guard['armed']:
        signal.signal(signal.SIGVTALRM, _guard_tick)
        signal.setitimer(signal.ITIMER_VIRTUAL, GUARD_TICK, GUARD_TICK)
        _guard['armed'] = True


def guarded(f, *a, **kw):
    _guard['call'] += 1
    _guard['active'] = True
    try:
        return f(*a, **kw)
    finally:
        _guard['active'] = False
        if _guard.get('stuck') == _guard['call']:
            # (whatever the interrupted code made of the interruption)
            raise ValidatorStuck()


def tx_accepts(fname, s):
    """(accepted?, exception-or-None) — looked up on the module at call time."""
    f = getattr(marshal, fname)
    try:
        guarded(f, s)
        return True, None
    except MarshallingError:
        return False, None
    except Exception as e:       # wrong exception type: a violation of the statement
        return False, e


def classify(kind, s, tx_ok, ref_ok):
    return None


def check_string(ctx, s, origin, order=None):
    for kind, fname in (order or VALIDATORS):
        ref_ok = G.VALIDATORS[kind](s)
        tx_ok, exc = tx_accepts(fname, s)
        ctx.count('evaluations')
        ctx.count(('accept_' if ref_ok else 'reject_') + kind)
        if isinstance(exc, ValidatorStuck):
            ctx.count('guard_fired')
            ctx.report('validator-does-not-return',
                       '%s(%r) (%d characters) was still running after %g to %g s of CPU time' % (
                           fname, s, len(s), GUARD_TICK, 2 * GUARD_TICK),
                       {'validator': fname, 'string': s, 'origin': origin}, {'kind': 'string', 'string': s})
            raise _Abort()       # (every further string of that shape would cost as much)
        if exc is not None:
            ctx.report('wrong-exception-type', '%s(%r) raised %s instead of MarshallingError' % (
                fname, s, type(exc).__name__), {'validator': fname, 'string': s, 'exc': repr(exc)},
                {'kind': 'string', 'string': s})
        if tx_ok != ref_ok:
            ctx.report(classify(kind, s, tx_ok, ref_ok),
                       '%s(%r): txdbus %s, grammar %s' % (fname, s, 'accepts' if tx_ok else 'rejects',
                                                          'accepts' if ref_ok else 'rejects'),
                       {'validator': fname, 'string': s, 'txdbus_accepts': tx_ok, 'grammar_accepts': ref_ok,
                        'origin': origin},
                       {'kind': 'string', 'string': s})
        if ref_ok:
            ctx.distinct('nontrivial_cases', (kind, s))


def constructor_matrix(ctx, names):
    """No message can be constructed carrying a name its validator (= the grammar) rejects."""
    good = {'path': '/p', 'member': 'M', 'interface': 'a.b', 'destination': 'a.b', 'error_name': 'a.b'}

    def build(ctor, pos, val):
        a = dict(good)
        a[pos] = val
        if ctor == 'call':
            return message.MethodCallMessage(a['path'], a['member'], interface=a['interface'],
                                             destination=a['destination'])
        if ctor == 'signal':
            return message.SignalMessage(a['path'], a['member'], a['interface'], destination=a['destination'])
        if ctor == 'error':
            return message.ErrorMessage(a['error_name'], 1, destination=a['destination'])
        if ctor == 'return':
            return message.MethodReturnMessage(1, destination=a['destination'])

    slots = [('call', 'path', 'object_path'), ('call', 'member', 'member'), ('call', 'interface', 'interface'),
             ('call', 'destination', 'bus'), ('signal', 'path', 'object_path'), ('signal', 'member', 'member'),
             ('signal', 'interface', 'interface'), ('signal', 'destination', 'bus'),
             ('error', 'error_name', 'error'), ('error', 'destination', 'bus'), ('return', 'destination', 'bus')]
    for s in names:
        for ctor, pos, kind in slots:
            ref_ok = G.VALIDATORS[kind](s)
            if ctor == 'call' and pos == 'path' and s == '/org/freedesktop/DBus/Local':
                continue
            ctx.count('evaluations')
            ctx.count('constructor_cases')
            try:
                m = guarded(build, ctor, pos, s)
                built, exc = True, None
            except MarshallingError:
                built, exc = False, None
            except Exception as e:
                built, exc = False, e
            case = {'kind': 'ctor', 'ctor': ctor, 'pos': pos, 'string': s}
            if isinstance(exc, ValidatorStuck):
                ctx.count('guard_fired')
                ctx.report('validator-does-not-return',
                           'building a %s message with %s=%r was still running after %g to %g s of CPU time' % (
                               ctor, pos, s, GUARD_TICK, 2 * GUARD_TICK), case, case)
                raise _Abort()
            elif exc is not None and not ref_ok:
                ctx.report('ctor-wrong-exception-type',
                           '%s message with %s=%r raised %s instead of MarshallingError' % (
                               ctor, pos, s, type(exc).__name__), case, case)
            elif exc is not None:
                ctx.report('ctor-crash-on-valid', '%s message with valid %s=%r raised %r' % (ctor, pos, s, exc),
                           case, case)
            elif built and not ref_ok:
                key = None
                ctx.report(key, '%s message constructed carrying invalid %s=%r' % (ctor, pos, s), case, case)
            elif not built and ref_ok:
                ctx.report(None, '%s message with valid %s=%r refused' % (ctor, pos, s), case, case)
            elif built:
                ctx.count('constructed_valid')
                try:
                    p = message.parseMessage(m.rawMessage, [])
                    back = getattr(p, pos)
                except Exception as e:
                    back = e
                if back != s:
                    ctx.report(None, '%s message %s=%r parsed back as %r' % (ctor, pos, s, back), case, case)


def run(ctx):
    try:
        _run(ctx)
    except _Abort:
        pass


def _run(ctx):
    arm_guard()
    L = 5 if ctx.tier == 'quick' else 6
    shard_i, shard_n = ctx.shard or (0, 1)
    ctx.rule = ('every string of length 0..%d over the 9-class alphabet %r through 5 validators, compared with a '
                'hand-written grammar recogniser; random strings up to 300 chars; 254/255/256-byte boundary; '
                'message-constructor matrix. non-trivial = (validator,string) pairs the grammar accepts' % (
                    L, ''.join(ALPHABET)))
    n = 0
    for ln in range(0, L + 1):
        for tup in itertools.product(ALPHABET, repeat=ln):
            n += 1
            if n % shard_n != shard_i:
                continue
            check_string(ctx, ''.join(tup), 'exhaustive')
            if n % 2:
                # a validator's verdict must not depend on which validators saw the string before
                check_string(ctx, ''.join(tup), 'exhaustive-reversed', list(reversed(VALIDATORS)))
    ctx.note('exhaustive_bound', {'alphabet': ALPHABET, 'max_len': L, 'strings': n})
    ctx.exhaustive = True
    ctx.sample({'string': 'a.b-1:', 'grammar': {k: G.VALIDATORS[k]('a.b-1:') for k, _ in VALIDATORS}})

    # boundary 254 / 255 / 256
    rng = ctx.rng
    bases = ['a', '/a', 'a.b', ':1.2', 'a.', '/']
    for total in (254, 255, 256, 257):
        for b in bases:
            for fill in ('a', '1', '_'):
                s = b + fill * (total - len(b))
                check_string(ctx, s, 'boundary')
                s2 = fill * (total - len(b)) + b
                check_string(ctx, s2, 'boundary')
        # element-wise long names
        s = '.'.join(['ab'] * 200)[:total]
        check_string(ctx, s, 'boundary')
        s = '/' + '/'.join(['ab'] * 200)[:total - 1]
        check_string(ctx, s, 'boundary')
    ctx.count('boundary_strings', 4 * (len(bases) * 6 + 2))

    # control characters around otherwise valid names (a '$'-anchored pattern accepts a trailing line feed)
    valid = ['a.b', 'a_1.B2', ':1.2', 'a-b.c', '/a/b', '/', 'Member_1', 'x']
    for v in valid:
        for ch in ('\n', '\r', '\r\n', '\0', '\t', '\x0b', '\x0c', '\x1c', '\x85', '\u2028'):
            for s_ in (v + ch, ch + v, v[:1] + ch + v[1:], v + ch + v):
                check_string(ctx, s_, 'control-char')
                check_string(ctx, s_, 'control-char-reversed', list(reversed(VALIDATORS)))
    ctx.count('control_char_strings', len(valid) * 10 * 4)

    # well-known prefixes (a validator may treat "its own" namespaces specially): every tail up to length 3, and control
    # characters, behind each
    prefixes = ['org.freedesktop.DBus.', 'org.freedesktop.DBus', 'org.freedesktop.', 'org.', 'com.example.', ':1.',
                '/org/freedesktop/DBus/', '/org/freedesktop/DBus', 'org.txdbus.', 'org.freedesktop.DBus.Error.',
                'org.freedesktop.DBus.Properties.']
    tails = [''.join(t) for ln in range(0, 4) for t in itertools.product(ALPHABET, repeat=ln)]
    tails += ['Out Of Range', 'a\n', 'a..b', '1a', 'a-b', 'a' * 240, 'é']
    if shard_i == 0:
        for pre in prefixes:
            for tl in tails:
                check_string(ctx, pre + tl, 'prefix')
        ctx.count('prefixed_strings', len(prefixes) * len(tails))

    # characters that mean something to Python's own string machinery (a refusal is reported with a message built from the
    # rejected string: %-formatting, str.format braces, backslashes) - the verdict and the exception class do not depend
    # on them
    fmt = ['a.b%s', '%.%', 'a%d.b', 'org.example.Load100%', '/a%', '/a/%s', 'M%s', 'M%', ':1.%d', '%(x)s.a', 'a.%%', 'a.b%',
           'a.{0}', '{}.{}', 'a.b{', '/a/{x}', 'M{0}', 'a.b\\', 'a\\n.b', 'a.b%c', '%s', '%', '{', 'a.b%(', 'a.%1$s']
    for s_ in fmt:
        check_string(ctx, s_, 'format-chars')
        check_string(ctx, s_, 'format-chars-reversed', list(reversed(VALIDATORS)))
    ctx.count('format_char_strings', len(fmt))

    # long strings with a single defect late in the string (object paths have no length limit; a validator that looks at
    # a prefix only, or stops looking after N characters, shows here): a valid long string, then the same with one
    # character replaced / one element emptied at a late position
    long_valid = ['/' + '/'.join(['seg%d' % k for k in range(90)]), '/' + 'a' * 700, '/a' * 400,
                  '.'.join(['el%d' % k for k in range(50)]), ':1.' + '.'.join(['9'] * 100), 'M' * 250]
    late = 0
    for v in long_valid:
        check_string(ctx, v, 'late-defect')
        for pos in sorted(set([len(v) - 1, len(v) - 2, len(v) // 2, 254, 255, 256, 257, 260, 300, 511, 512, 513, 600]
                              + [rng.randint(128, len(v) - 1) for _ in range(6)])):
            if not 0 < pos < len(v):
                continue
            for ch in ('-', '!', ' ', '/', '.', '\n', 'é', ':'):
                check_string(ctx, v[:pos] + ch + v[pos + 1:], 'late-defect')
                check_string(ctx, v[:pos] + ch + v[pos:], 'late-defect')
                late += 2
    ctx.count('late_defect_strings', late)

    # random long strings, biased towards near-valid shapes
    nrand = (4000 if ctx.tier == 'quick' else 40000) // shard_n + 1
    weights = [12, 4, 2, 5, 1, 1, 4, 1, 1]
    for i in range(nrand):
        ln = rng.choice([rng.randint(6, 12), rng.randint(6, 40), rng.randint(200, 300)])
        s = ''.join(rng.choices(ALPHABET, weights, k=ln))
        mode = rng.random()
        if mode < 0.3:
            s = '/' + s.replace(' ', 'a').replace('é', 'b')
        elif mode < 0.5:
            s = ':' + s.replace('/', '.')
        elif mode < 0.8:
            s = s.replace('/', '.').replace(' ', '_')
        check_string(ctx, s, 'random')
        ctx.count('random_strings')
        if i < 2:
            ctx.sample({'string': s, 'grammar': {k: G.VALIDATORS[k](s) for k, _ in VALIDATORS}})

    # constructor matrix: all strings up to length 3 plus selected longer ones
    names = [''.join(t) for ln in range(0, 4) for t in itertools.product(ALPHABET, repeat=ln)]
    names += ['a.b.', 'a.b:c', ':.a', ':1.2', 'a.b.c', '/a/b', '/a//b', '/a/', 'a..b', '.a.b', 'a.1b', 'a-b.c',
              'a' * 255, 'a.' + 'b' * 253, 'a.' + 'b' * 254, '/' + 'a' * 300, 'M' * 256, 'a b.c', 'a.b\n', 'M\n', '/a\n',
              ':1.2\n', 'a.b\r', '\na.b', 'M\0', '/a/b\n', 'a.b\n.c', 'org.freedesktop.DBus.Error.Out Of Range',
              'org.freedesktop.DBus.a..b', 'org.freedesktop.DBus.', 'org.freedesktop.DBus.1x', 'org.freedesktop.DBus.Peer',
              '::1.2', ':1.2:3', ':a.b:c', 'a-1.b', 'a.-1', '//', '//a',
              'a.b%s', '%.%', 'org.example.Load100%', 'M%s', '/a/%s', 'a.{0}', ':1.%d',
              '/' + 'a' * 300 + '-x', '/' + '/'.join(['seg'] * 80) + '/uuid-with-hyphens', '/a' * 200 + '//b', '/a' * 200 + '/']
    if shard_i == 0:
        constructor_matrix(ctx, names)
    ctx.require(ctx.counters.get('evaluations', 0) > 1000, 'too few evaluations')


def replay(ctx, rp):
    arm_guard()
    case = rp.get('case') or {}
    try:
        if case.get('kind') == 'ctor':
            constructor_matrix(ctx, [case['string']])
        else:
            check_string(ctx, case['string'], 'replay')
    except _Abort:
        pass
