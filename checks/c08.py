"""
C08 — each remote call completes exactly once, with the reply that belongs to it.

N concurrent calls on one real DBusClientConnection (simulated transport, virtual clock); every
permutation of their replies, error replies, deadline expiries, duplicate / late / unsolicited
replies and a connection loss (N <= 3 exhaustively, random beyond).  Oracle: "the first of
{reply, error, deadline, loss} decides"; counting callback pairs; unique tokens.
"""
import itertools
import random

from twisted.internet.error import ConnectionLost
from twisted.python.failure import Failure

from harness.ref_codec import Variant
from harness import clientfix, ref_message as RM
from harness.ref_codec import plain_eq
from txdbus import error as E

PROP = 'C08'
LEVEL = 'exploration'
SHARDS = {'thorough': 16}

CLOCK = None

# reply body kinds: (signature, builder(token) -> values, convention(values) -> delivered value)
BODIES = {
    'none': ('', lambda t: [], lambda v: None),
    'str': ('s', lambda t: [t], lambda v: v[0]),
    'array': ('as', lambda t: [[t, 'x']], lambda v: v[0]),
    'struct': ('(si)', lambda t: [[t, 7]], lambda v: v),
    'multi': ('si', lambda t: [t, 9], lambda v: v),
    'int': ('i', lambda t: [hash(t) % 1000], lambda v: v[0]),
    # one value that is not a struct but contains one: still "one non-struct value gives that value"
    'array-of-struct': ('a(si)', lambda t: [[[t, 1], [t + 'x', 2]]], lambda v: v[0]),
    'dict-of-struct': ('a{s(ii)}', lambda t: [[(t, [1, 2])]], lambda v: dict(v[0])),
    'variant-struct': ('v', lambda t: [Variant('(si)', [t, 3])], lambda v: v[0].value),
    'struct-first-of-two': ('(si)s', lambda t: [[t, 7], 'z'], lambda v: v),
    'empty-array': ('as', lambda t: [[]], lambda v: v[0]),
    'falsy': ('i', lambda t: [0], lambda v: v[0]),
    # text outside ASCII ahead of further values: a localised message with a code, a name with properties
    'text-then-int': ('si', lambda t: ['na\u00efve caf\u00e9 ' + t, 7], lambda v: v),
    'text-then-more': ('sud', lambda t: ['Z\u00fcrich \u2013 Gen\u00e8ve \U0001f600' + t, 99, 2.5], lambda v: v),
    'text-then-dict': ('sa{sv}', lambda t: ['\u00e9' + t, [('k\u00e9', Variant('i', 5))]],
                       lambda v: [v[0], dict((k, x.value) for k, x in v[1])]),
    # replies of ordinary but not small size: an introspection document, a bulk result (well above 16 KiB, far below
    # the protocol's 128 MiB)
    'long-string': ('s', lambda t: [t + 'x' * 17000], lambda v: v[0]),
    'big-array': ('ay', lambda t: [[(len(t) + i) % 256 for i in range(17000)]], lambda v: v[0]),
    'many-strings': ('as', lambda t: [[t + str(i) for i in range(1100)]], lambda v: v[0]),
}

BIG_BODIES = ['long-string', 'big-array', 'many-strings']
SMALL_BODIES = [k for k in BODIES if k not in BIG_BODIES]

# per-call event scripts; R reply, E error, T deadline, D duplicate reply, L late reply, e duplicate error
SCRIPTS = [('R',), ('E',), ('T',), ('R', 'D'), ('T', 'L'), ('R', 'T'), ('E', 'R'), ('E', 'e'), ('T', 'E'), (),
           ('R', 'E'), ('R', 'D', 'T')]


class Call:
    def __init__(self, idx, script, body_kind, ret_mode, timeout, little):
        self.idx = idx
        self.script = script
        self.body_kind = body_kind
        self.ret_mode = ret_mode      # 'nocheck' | 'match' | 'mismatch' | 'expect-none'
        self.timeout = timeout
        self.little = little
        self.token = 'tok-%d' % idx
        self.serial = None
        self.outcome = None

    def describe(self):
        return {'idx': self.idx, 'script': list(self.script), 'body': self.body_kind, 'ret': self.ret_mode,
                'timeout': self.timeout, 'little': self.little}


def return_signature(call):
    sig = BODIES[call.body_kind][0]
    if call.ret_mode == 'nocheck':
        return None
    if call.ret_mode == 'match':
        return sig
    if call.ret_mode == 'expect-none':
        return ''
    return 'u' if sig != 'u' else 'i'      # mismatch


def expected_of_reply(call):
    """('ok', value) or ('remote-error', None) for a method return delivered first."""
    sig, build, conv = BODIES[call.body_kind]
    vals = build(call.token)
    if call.ret_mode == 'mismatch':
        return ('sigerror', None)
    if call.ret_mode == 'expect-none' and sig:
        return ('sigerror', None)
    return ('ok', conv(vals))


def error_body(c):
    """Error replies come with a text, with text + values, with no body at all, or with a non-string first value."""
    k = (c.idx + len(c.token) + len(c.body_kind)) % 4
    if k == 0:
        return '', []
    if k == 1:
        return 'is', [c.idx, 'not-the-message']
    if k == 2:
        return 's', ['msg-' + c.token]
    if c.idx % 3 == 0:
        return 'sib', ['d\u00e9faut \u2013 ' + c.token, -3 - c.idx, True]
    return 'si', ['msg-' + c.token, c.idx]


def execute(ctx, calls, order, case):
    """order: list of (call index | 'X' | 'U', event letter)."""
    peer = clientfix.Peer().ready()
    conn = peer.proto
    ctx.count('evaluations')
    loss_reason = Failure(ConnectionLost('verif loss'))
    # a second connection of the same process (session + system bus, say): what arrives THERE, even under the serial of
    # a call made here, is none of this connection's business - and its loss neither
    other = clientfix.Peer().ready() if (len(order) + len(calls)) % 4 == 0 else None
    # a listener that makes one more call when it learns that the connection is gone: that call is outstanding on a dead
    # connection and completes once, with the loss reason, leaving nothing behind
    goodbyes = []
    if (len(order) + 2 * len(calls)) % 5 == 0:
        def goodbye(c_, reason_):
            goodbyes.append(clientfix.Outcome(c_.callRemote('/obj', 'Goodbye', interface='org.verif.I',
                                                            destination='org.verif.Peer', timeout=7.5)))
        conn.notifyOnDisconnect(goodbye)
    # issue the calls
    for c in calls:
        kw = {}
        rs = return_signature(c)
        if rs is not None:
            kw['returnSignature'] = rs
        if c.timeout:
            kw['timeout'] = c.timeout
        d = conn.callRemote('/obj', 'Method%d' % c.idx, interface='org.verif.I', destination='org.verif.Peer',
                            signature='s', body=[c.token], **kw)
        c.outcome = clientfix.Outcome(d, c.idx)
    sent = peer.take()
    by_member = {m.fields.get('member'): m for m in sent}
    w = {'calls': [c.describe() for c in calls], 'order': [[a, b] for a, b in order]}
    for c in calls:
        m = by_member.get('Method%d' % c.idx)
        if m is None or m.body != [c.token]:
            ctx.report('call-not-sent', 'call %d was not written to the transport intact' % c.idx, w, case)
            return
        c.serial = m.serial
    if len({c.serial for c in calls}) != len(calls):
        ctx.report('serial-reuse', 'two outstanding calls share a serial', w, case)
        return
    decided = {}        # idx -> (kind, detail)
    lost = False
    rserial = [1000]

    # replies of several calls (in whatever byte order each peer uses) may arrive in ONE read
    coalesce = (len(order) * 7 + len(calls) + sum(len(c.token) for c in calls)) % 3 == 0
    hold = []

    def emit(raw):
        if coalesce:
            hold.append(raw)
        else:
            peer.send(raw)

    def flush():
        if hold:
            data = b''.join(hold)
            del hold[:]
            ctx.count('coalesced_reply_reads')
            peer.send(data)

    def inject(c, kind):
        rserial[0] += 1
        sig, build, conv = BODIES[c.body_kind]
        # header layouts another implementation may legally produce: fields in any order, unknown field codes anywhere
        layout = (rserial[0] * 7 + c.idx + len(calls)) % 6
        extra = [(42, Variant('s', 'ignored')), (200, Variant('u', 7))][:layout % 3] if layout else []

        def order_(fl, layout=layout):
            known = [f for f in fl if f[0] not in (42, 200)]
            unk = [f for f in fl if f[0] in (42, 200)]
            if layout == 1:          # unknown field right after REPLY_SERIAL
                out = []
                for f in known:
                    out.append(f)
                    if f[0] == RM.FIELD_CODE['reply_serial']:
                        out.extend(unk)
                return out
            if layout == 2:          # unknown fields first
                return unk + known
            if layout == 3:
                return list(reversed(known))
            if layout == 4:          # signature first, unknown in the middle
                known.sort(key=lambda f: f[0] != RM.SIGNATURE)
                return known[:1] + unk + known[1:]
            return known + unk
        ctx.count('reply_header_layout_%d' % layout)
        if kind == 'return':
            raw = RM.build(RM.METHOD_RETURN, rserial[0], {'reply_serial': c.serial, 'sender': ':1.7'}, sig,
                           build(c.token), c.little, extra_fields=extra, field_order=order_)
        else:
            esig, ebody = error_body(c)
            raw = RM.build(RM.ERROR, rserial[0], {'reply_serial': c.serial, 'sender': ':1.7',
                                                  'error_name': 'org.verif.Err%d' % c.idx},
                           esig, ebody, c.little, extra_fields=extra, field_order=order_)
        emit(raw)

    now = [0.0]
    for who, ev in order:
        if who == 'X':
            flush()
            if not lost:
                lost = True
                peer.lose(loss_reason)
                for c in calls:
                    decided.setdefault(c.idx, ('loss', None))
            continue
        if who == 'U':
            if other is not None and calls:
                tgt = calls[rserial[0] % len(calls)]
                other.send(RM.build(RM.METHOD_RETURN if ev == 'R' else RM.ERROR, 900 + rserial[0],
                                    dict({'reply_serial': tgt.serial}, **({} if ev == 'R' else {'error_name': 'org.verif.Other'})),
                                    's', ['for another connection']))
                ctx.count('replies_on_another_connection')
                if rserial[0] % 3 == 0:
                    other.lose(Failure(ConnectionLost('the other connection went away')))
                    other = clientfix.Peer().ready()
            if lost:
                continue
            rserial[0] += 1
            # near-miss reply serials: an unused neighbour, the same low 16 / 31 bits, a huge one
            base = calls[rserial[0] % len(calls)].serial
            used = {c.serial for c in calls}
            cands = [base + 65536, base | 0x80000000, (base + 2**24) & 0xFFFFFFFF, base + len(calls) + 1,
                     0x7FFFFF00 + rserial[0], 0xFFFFFFFF]
            stray = [x for x in cands if x not in used and 0 < x < 2**32][rserial[0] % 5 % len(cands)]
            if ev == 'R':
                raw = RM.build(RM.METHOD_RETURN, rserial[0], {'reply_serial': stray}, 's', ['stray'])
            else:
                raw = RM.build(RM.ERROR, rserial[0], {'reply_serial': stray,
                                                      'error_name': 'org.verif.Stray'}, 's', ['stray'], rserial[0] % 2 == 0)
            emit(raw)
            ctx.count('unsolicited_injected')
            continue
        c = calls[who]
        if ev in ('R', 'D', 'L'):
            if lost:
                continue
            if ev != 'R' or c.idx in decided:
                ctx.count('duplicates_or_late_injected')
            inject(c, 'return')
            decided.setdefault(c.idx, ('return', None))
        elif ev in ('E', 'e'):
            if lost:
                continue
            if c.idx in decided:
                ctx.count('duplicates_or_late_injected')
            inject(c, 'error')
            decided.setdefault(c.idx, ('error', None))
        elif ev == 'T':
            flush()
            if c.timeout:
                # deadlines are distinct per call: advance virtual time just past this one
                target = c.timeout + 0.001
                if target > now[0]:
                    try:
                        CLOCK.advance(target - now[0])
                    except Exception as e:
                        w['timer_exception'] = repr(e)
                        ctx.report('timer-callback-raised', 'a deadline timer raised %r (the reactor would log it)' % e,
                                   w, case)
                    now[0] = target
                # every call whose deadline has now passed and is undecided timed out
                for o in calls:
                    if o.timeout and o.timeout <= now[0]:
                        decided.setdefault(o.idx, ('timeout', None))
        if peer.ep.crashes:
            w['crash'] = repr(peer.ep.crashes[0])
            ctx.report('crash', 'connection crashed with %r while delivering event %r of call %r' % (
                peer.ep.crashes[0], ev, who), w, case)
            break
        # quiescence invariant: live timers == undecided calls with a deadline (once everything sent has been read)
        live = len([dc for dc in CLOCK.getDelayedCalls() if dc.active()])
        want = len([o for o in calls if o.timeout and o.idx not in decided])
        if live != want and not hold:
            w['live_timers'] = live
            w['expected_timers'] = want
            ctx.report('timer-leak', 'after event (%r,%r): %d live timers, %d undecided calls with a deadline' % (
                who, ev, live, want), w, case)
            break
    flush()
    if peer.ep.crashes and 'crash' not in w:
        w['crash'] = repr(peer.ep.crashes[0])
        ctx.report('crash', 'connection crashed with %r while reading coalesced replies' % (peer.ep.crashes[0],), w, case)
    # end: lose the connection so that everything must have completed
    if not lost:
        peer.lose(loss_reason)
        for c in calls:
            decided.setdefault(c.idx, ('loss', None))
    try:
        CLOCK.advance(10000)
    except Exception as e:
        w['timer_exception'] = repr(e)
        ctx.report('fired-after-completion', 'a timer fired after its call had completed and raised %r' % e, w, case)
    live = [dc for dc in CLOCK.getDelayedCalls() if dc.active()]
    if live:
        ctx.report('timer-leak', '%d timers still live after every call completed' % len(live), w, case)
        for dc in live:
            dc.cancel()
    for g in goodbyes:
        ctx.count('calls_from_disconnect_callbacks')
        if g.fired != 1 or g.results[0][0] != 'err' or g.results[0][1].value is not loss_reason.value:
            ctx.report('call-from-disconnect-callback', 'a call issued by a disconnect callback completed %d times (%r), '
                       'expected once with the loss reason' % (g.fired, [(k, repr(v)[:80]) for k, v in g.results]), w, case)
    pend = getattr(conn, '_pendingCalls', None)
    if isinstance(pend, dict) and pend:
        ctx.report('bookkeeping-left', '%d pending-call entries remain after completion' % len(pend), w, case)
    # verdict per call
    for c in calls:
        res = c.outcome.results
        kind = decided[c.idx][0]
        ctx.count('first_' + kind)
        desc = 'call %d (%s, first event %s)' % (c.idx, c.describe(), kind)
        if len(res) != 1:
            w['results'] = [(k, repr(v)[:100]) for k, v in res]
            ctx.report('fired-%d-times' % len(res), '%s: its Deferred fired %d times' % (desc, len(res)), w, case)
            continue
        got_kind, val = res[0]
        ok = True
        if kind == 'return':
            ek, ev_ = expected_of_reply(c)
            if ek == 'ok':
                ok = got_kind == 'ok' and plain_eq(val, ev_) and type(val) == type(ev_)
            else:
                ok = got_kind == 'err' and isinstance(val.value, E.RemoteError)
        elif kind == 'error':
            esig, ebody = error_body(c)
            want_msg = ebody[0] if ebody and isinstance(ebody[0], str) else ''
            ok = (got_kind == 'err' and isinstance(val.value, E.RemoteError)
                  and getattr(val.value, 'errName', None) == 'org.verif.Err%d' % c.idx
                  and getattr(val.value, 'message', None) == want_msg
                  and plain_eq(list(getattr(val.value, 'values', None) or []), ebody))
        elif kind == 'timeout':
            ok = got_kind == 'err' and isinstance(val.value, E.TimeOut)
        elif kind == 'loss':
            ok = got_kind == 'err' and (val is loss_reason or val.value is loss_reason.value)
        if not ok:
            w['got'] = (got_kind, repr(val.value if got_kind == 'err' else val)[:200])
            w['first_event'] = kind
            ctx.report('wrong-completion', '%s completed with %s %r' % (
                desc, got_kind, repr(val.value if got_kind == 'err' else val)[:80]), w, case)
    return


def long_history(ctx):
    """A call that stays outstanding while the process sends tens of thousands of other messages: later calls must
    not be confused with it (serials are process-wide and finite)."""
    peer = clientfix.Peer().ready()
    conn = peer.proto
    case = {'kind': 'long-history'}
    probes = []

    def probe(label):
        d = conn.callRemote('/obj', 'Probe', interface='org.verif.I', destination='org.verif.Peer', signature='s',
                            body=[label])
        out = clientfix.Outcome(d, label)
        msgs = [m for m in peer.take() if m.fields.get('member') == 'Probe']
        probes.append({'label': label, 'outcome': out, 'serial': msgs[-1].serial if msgs else None})

    sent = 0
    probe('first')
    for target in (2**15, 2**16 - 3, 2**16 - 2, 2**16 - 1, 2**16, 2**16 + 1, 2**16 + 2):
        while sent < target:
            conn.callRemote('/obj', 'Noise', interface='org.verif.I', destination='org.verif.Peer', expectReply=False)
            sent += 1
            if sent % 4096 == 0:
                peer.ep.t.take()          # discard the noise without parsing it
        peer.ep.t.take()
        probe('after-%d' % sent)
        sent += 1
    ctx.count('evaluations')
    ctx.count('long_history_messages', sent)
    w = {'probes': [(p['label'], p['serial']) for p in probes]}
    serials = [p['serial'] for p in probes]
    if None in serials or len(set(serials)) != len(serials):
        ctx.report('serial-reuse', 'outstanding calls share a serial after %d intervening messages: %r' % (sent, w['probes']),
                   w, case)
        return
    # answer in reverse order, each with its own token
    for i, p in enumerate(reversed(probes)):
        peer.send(RM.build(RM.METHOD_RETURN, 5000 + i, {'reply_serial': p['serial']}, 's', ['answer-' + p['label']]))
    for p in probes:
        res = p['outcome'].results
        if len(res) != 1 or res[0] != ('ok', 'answer-' + p['label']):
            w['results'] = [(q['label'], [(k, repr(v)[:60]) for k, v in q['outcome'].results]) for q in probes]
            ctx.report('wrong-completion', 'after a long message history call %r completed with %r' % (
                p['label'], [(k, repr(v)[:60]) for k, v in res]), w, case)
            return
    ctx.count('long_history_ok')


def local_failures(ctx):
    """Calls that cannot even be written (arguments not conforming to the signature, invalid names): the Deferred fails
    once, nothing is written, and neither bookkeeping nor a timer stays behind - also when a deadline was asked for."""
    peer = clientfix.Peer().ready()
    conn = peer.proto
    case = {'kind': 'local-failure'}
    bad = [dict(objectPath='/obj', methodName='M', signature='i', body=['not-an-int']),
           dict(objectPath='/obj', methodName='M', signature='as', body=[5]),
           dict(objectPath='/obj', methodName='M', signature='ii', body=[1]),
           dict(objectPath='no-slash', methodName='M'),
           dict(objectPath='/obj', methodName='not a member'),
           dict(objectPath='/obj', methodName='M', interface='nodots'),
           dict(objectPath='/obj', methodName='M', destination='..bad'),
           dict(objectPath='/obj', methodName='M', signature='(i', body=[1])]
    good_before = clientfix.Outcome(conn.callRemote('/obj', 'Good', interface='org.verif.I', destination='org.verif.Peer',
                                                    timeout=50.0))
    sent = [m for m in peer.take() if m.fields.get('member') == 'Good']
    for kw in bad:
        for timeout in (None, 4.0):
            ctx.count('evaluations')
            kw2 = dict(kw)
            path, member = kw2.pop('objectPath'), kw2.pop('methodName')
            if timeout:
                kw2['timeout'] = timeout
            pend_before = dict(conn._pendingCalls)
            timers_before = len(CLOCK.getDelayedCalls())
            w = {'call': {k: repr(v) for k, v in kw.items()}, 'timeout': timeout}
            try:
                out = clientfix.Outcome(conn.callRemote(path, member, **kw2))
            except Exception as e:
                # raising at once is a completion too (the caller learns about it exactly once)
                ctx.count('local_failures_raised')
                out = None
                w['raised'] = repr(e)
            wrote = peer.take()
            if out is not None and (out.fired != 1 or out.results[0][0] != 'err'):
                w['results'] = [(k, repr(v)[:80]) for k, v in out.results]
                ctx.report('local-failure-outcome', 'a call that cannot be encoded completed %d times: %r' % (
                    out.fired, w['results']), w, case)
                return
            if wrote:
                ctx.report('local-failure-written', 'a call that cannot be encoded still wrote %d message(s)' % len(wrote),
                           w, case)
                return
            if dict(conn._pendingCalls) != pend_before or len(CLOCK.getDelayedCalls()) != timers_before:
                ctx.report('local-failure-bookkeeping', 'a call that failed before it was sent left bookkeeping or a timer '
                           'behind (pending %d -> %d, timers %d -> %d)' % (
                               len(pend_before), len(conn._pendingCalls), timers_before, len(CLOCK.getDelayedCalls())),
                           w, case)
                return
            ctx.count('local_failures_ok')
    # the call made before is unaffected and still completes with its own reply
    if sent:
        peer.send(RM.build(RM.METHOD_RETURN, 77, {'reply_serial': sent[0].serial}, 's', ['fine']))
    if good_before.results != [('ok', 'fine')]:
        ctx.report('wrong-completion', 'a call outstanding while others failed locally completed with %r' % (
            [(k, repr(v)[:60]) for k, v in good_before.results],), {}, case)
    try:
        CLOCK.advance(1000)
    except Exception as e:
        ctx.report('timer-callback-raised', 'a timer raised %r after local failures' % e, {}, case)
    if good_before.fired != 1:
        ctx.report('wrong-completion', 'call completed %d times' % good_before.fired, {}, case)


def fire_and_forget(ctx):
    """Calls that expect no reply complete at once (with None); given a deadline as well, they are complete all the same:
    no timer and no bookkeeping is left behind, and nothing fires when the deadline passes - also beside ordinary calls."""
    case = {'kind': 'fire-and-forget'}
    peer = clientfix.Peer().ready()
    conn = peer.proto
    peer.take()
    timers0 = len(CLOCK.getDelayedCalls())
    ordinary = clientfix.Outcome(conn.callRemote('/obj', 'Ordinary', interface='org.verif.I', destination='org.verif.Peer',
                                                 timeout=9.0))
    o_serial = [m.serial for m in peer.take() if m.fields.get('member') == 'Ordinary']
    outs = []
    for i, kw in enumerate([{'expectReply': False}, {'expectReply': False, 'timeout': 5.0},
                            {'expectReply': False, 'timeout': 0.5, 'autoStart': False},
                            {'expectReply': False, 'timeout': 5.0, 'signature': 's', 'body': ['x']}]):
        ctx.count('evaluations')
        try:
            outs.append((kw, clientfix.Outcome(conn.callRemote('/obj', 'Forget%d' % i, interface='org.verif.I',
                                                               destination='org.verif.Peer', **kw))))
        except Exception as e:
            ctx.report(None, 'callRemote(%r) raised %r' % (kw, e), {'kw': repr(kw)}, case)
            return
    written = [m for m in peer.take() if m.fields.get('member', '').startswith('Forget')]
    w = {'calls': [repr(kw) for kw, _ in outs], 'timers_before': timers0, 'timers_now': len(CLOCK.getDelayedCalls()),
         'pending': len(conn._pendingCalls)}
    if len(written) != len(outs) or any(m.flags & 1 != 1 for m in written):
        ctx.report('noreply-not-sent', '%d no-reply calls wrote %d messages with flags %r' % (
            len(outs), len(written), [m.flags for m in written]), w, case)
        return
    for kw, o in outs:
        if o.results != [('ok', None)]:
            ctx.report('wrong-completion', 'a call expecting no reply (%r) completed with %r' % (kw, o.results), w, case)
            return
    # only the ordinary call's deadline timer and table entry may exist now
    if len(CLOCK.getDelayedCalls()) != timers0 + 1 or len(conn._pendingCalls) != 1:
        ctx.report('timer-left', 'after %d no-reply calls completed, %d timers (expected %d) and %d pending entries (expected '
                   '1) exist' % (len(outs), len(CLOCK.getDelayedCalls()), timers0 + 1, len(conn._pendingCalls)), w, case)
        return
    try:
        CLOCK.advance(6.0)
    except Exception as e:
        ctx.report('timer-callback-raised', 'a timer raised %r when the deadline of a completed no-reply call passed' % e,
                   w, case)
        return
    if any(o.fired != 1 for _, o in outs) or ordinary.fired:
        ctx.report('fired-after-completion', 'something fired when the deadlines of completed no-reply calls passed: %r' % (
            [o.results for _, o in outs],), w, case)
        return
    if o_serial:
        peer.send(RM.build(RM.METHOD_RETURN, 88, {'reply_serial': o_serial[0]}, 's', ['still fine']))
    if ordinary.results != [('ok', 'still fine')]:
        ctx.report('wrong-completion', 'the ordinary call beside the no-reply calls completed with %r' % (ordinary.results,),
                   w, case)
        return
    if len(CLOCK.getDelayedCalls()) != timers0 or conn._pendingCalls:
        ctx.report('timer-left', 'timers %d (expected %d), pending entries %d after everything completed' % (
            len(CLOCK.getDelayedCalls()), timers0, len(conn._pendingCalls)), w, case)
        return
    ctx.count('fire_and_forget_ok', len(outs))
    peer.lose()


def proxy_declared_returns(ctx):
    """Calls through a remote-object proxy whose two interfaces declare the same method name with different return
    signatures: every call is judged against the declaration it resolves to - the named interface, or the first listed one
    when none is named - whatever was called before on that proxy."""
    from txdbus import interface as I_
    from txdbus import objects as O_
    case = {'kind': 'proxy-returns'}
    peer = clientfix.Peer().ready()
    conn = peer.proto
    ia = I_.DBusInterface('org.verif.c08.A', I_.Method('Get', returns='s'), I_.Method('Only', returns='u'), noRegister=True)
    ib = I_.DBusInterface('org.verif.c08.B', I_.Method('Get', returns='i'), noRegister=True)
    out = clientfix.Outcome(conn.getRemoteObject('org.verif.Peer', '/obj', [ia, ib]))
    if out.fired != 1 or out.results[0][0] != 'ok':
        ctx.report(None, 'getRemoteObject with two explicit interfaces: %r' % (out.results,), {}, case)
        return
    proxy = out.results[0][1]
    decl = {'org.verif.c08.A': 's', 'org.verif.c08.B': 'i'}
    plan = [('org.verif.c08.B', 'i'), (None, 's'), (None, 'i'), ('org.verif.c08.A', 's'), ('org.verif.c08.B', 's'), (None, 's'),
            ('org.verif.c08.B', 'i'), (None, 'i'), ('org.verif.c08.A', 'i'), (None, 's')]
    for k, (named, reply_sig) in enumerate(plan):
        peer.take()
        kw = {'interface': named} if named else {}
        try:
            o = clientfix.Outcome(proxy.callRemote('Get', **kw))
        except Exception as e:
            ctx.report(None, 'proxy.callRemote(Get, %r) raised %r' % (kw, e), {'step': k}, case)
            return
        sent = [m for m in peer.take() if m.fields.get('member') == 'Get']
        ctx.count('evaluations')
        ctx.count('proxy_return_probes')
        want_iface = named or 'org.verif.c08.A'
        w = {'step': k, 'history': plan[:k + 1], 'sent_interface': [m.fields.get('interface') for m in sent],
             'expected_interface': want_iface, 'reply_signature': reply_sig}
        if len(sent) != 1 or sent[0].fields.get('interface') != want_iface:
            ctx.report('proxy-call-misdirected', 'step %d: Get %s went out under interface %r, expected %s' % (
                k, 'naming ' + named if named else 'without an interface', w['sent_interface'], want_iface), w, case)
            return
        body = ['text'] if reply_sig == 's' else [13]
        peer.send(RM.build(RM.METHOD_RETURN, 900 + k, {'reply_serial': sent[0].serial}, reply_sig, body))
        fits = decl[want_iface] == reply_sig
        good = o.fired == 1 and ((fits and o.results[0] == ('ok', body[0])) or
                                 (not fits and o.results[0][0] == 'err' and isinstance(o.results[0][1].value, E.RemoteError)))
        if not good:
            w['completion'] = [(a, repr(b.value if a == 'err' else b)[:100]) for a, b in o.results]
            ctx.report('wrong-completion', 'step %d: Get resolved to %s (declared to return %r) was answered with a %r reply and '
                       'completed with %r' % (k, want_iface, decl[want_iface], reply_sig, w['completion']), w, case)
            return
    if conn._pendingCalls or len(CLOCK.getDelayedCalls()):
        ctx.report('bookkeeping-left', 'after the proxy calls: %d pending entries, %d timers' % (
            len(conn._pendingCalls), len(CLOCK.getDelayedCalls())), {}, case)
    peer.lose()


def local_close_with_replies_in_flight(ctx):
    """The application asks for the connection to be closed (which only BEGINS the close: the transport goes on reading
    until the close is complete).  Replies that arrive before the loss is reported complete their calls with their own
    values - also the reply right behind the one whose callback asked for the close, in the same read."""
    case = {'kind': 'local-close'}
    loss = Failure(ConnectionLost('verif local close'))
    for variant in ('callback-closes', 'close-then-replies'):
        peer = clientfix.Peer().ready()
        conn = peer.proto
        peer.take()
        outs = {}
        serials = {}
        for name, t in (('A', None), ('B', 6.0), ('C', None)):
            kw = {'timeout': t} if t else {}
            d = conn.callRemote('/obj', name, interface='org.verif.I', destination='org.verif.Peer', **kw)
            if variant == 'callback-closes' and name == 'A':
                d.addCallback(lambda v: (conn.disconnect(), v)[1])
            outs[name] = clientfix.Outcome(d)
            for m in peer.take():
                if m.fields.get('member') == name:
                    serials[name] = m.serial
        ctx.count('evaluations')
        ctx.count('local_close_scenarios')
        rep = {n_: RM.build(RM.METHOD_RETURN, 700 + i, {'reply_serial': serials[n_]}, 's', ['value-' + n_])
               for i, n_ in enumerate('AB')}
        if variant == 'callback-closes':
            peer.ep.feed(rep['A'] + rep['B'])
        else:
            conn.disconnect()
            peer.ep.feed(rep['A'])
            peer.ep.feed(rep['B'])
        w = {'variant': variant, 'results': {n_: [(k, repr(v.value if k == 'err' else v)[:80]) for k, v in o.results]
                                             for n_, o in outs.items()}}
        if outs['A'].results != [('ok', 'value-A')] or outs['B'].results != [('ok', 'value-B')] or outs['C'].fired:
            ctx.report('reply-dropped-after-local-close', 'replies that arrived after the application asked for the close (%s) '
                       'and before the loss was reported: %r' % (variant, w['results']), w, case)
            return
        peer.lose(loss)
        try:
            CLOCK.advance(100)
        except Exception as e:
            ctx.report('timer-callback-raised', 'a timer raised %r after a local close' % e, w, case)
            return
        if outs['A'].fired != 1 or outs['B'].fired != 1 or outs['C'].fired != 1 or outs['C'].results[0][0] != 'err' \
                or conn._pendingCalls or len(CLOCK.getDelayedCalls()):
            w['after_loss'] = {n_: [(k, repr(v.value if k == 'err' else v)[:80]) for k, v in o.results] for n_, o in outs.items()}
            ctx.report('wrong-completion', 'after the loss that followed a local close: %r (pending %d, timers %d)' % (
                w['after_loss'], len(conn._pendingCalls), len(CLOCK.getDelayedCalls())), w, case)
            return
        ctx.count('local_close_ok')


def synchronous_replies(ctx):
    """An in-process peer (loop-back transport, embedded bus) answers while the call is still being written: the reply
    arrives re-entrantly from inside transport.write().  The call completes once with that reply all the same, and no
    bookkeeping or timer outlives it."""
    case = {'kind': 'sync-reply'}
    for variant in range(24):
        peer = clientfix.Peer().ready()
        conn = peer.proto
        peer.take()
        kind = ('return', 'error', 'none')[variant % 3]
        timeout = (None, 5.0)[(variant // 3) % 2]
        little = bool((variant // 6) % 2)
        seen = {'n': 0}

        def on_event(k_, payload, kind=kind, little=little, peer=peer, seen=seen):
            if k_ != 'write' or seen['n']:
                return
            try:
                m = RM.parse(payload, strict=False)
            except Exception:
                return
            if m.fields.get('member') != 'Sync':
                return
            seen['n'] += 1
            if kind == 'return':
                peer.ep.feed(RM.build(RM.METHOD_RETURN, 600, {'reply_serial': m.serial}, 's', ['at once'], little))
            elif kind == 'error':
                peer.ep.feed(RM.build(RM.ERROR, 600, {'reply_serial': m.serial, 'error_name': 'org.verif.AtOnce'}, 's',
                                      ['no'], little))
        peer.ep.t.on_event = on_event
        kw = {'timeout': timeout} if timeout else {}
        ctx.count('evaluations')
        ctx.count('synchronous_reply_cases')
        w = {'reply': kind, 'timeout': timeout, 'little': little}
        try:
            out = clientfix.Outcome(conn.callRemote('/obj', 'Sync', interface='org.verif.I', destination='org.verif.Peer',
                                                    **kw))
        except Exception as e:
            ctx.report('sync-reply', 'callRemote raised %r when the reply arrived during the write' % e, w, case)
            return
        peer.ep.t.on_event = None
        if kind == 'none':
            peer.send(RM.build(RM.METHOD_RETURN, 601, {'reply_serial': peer.take()[-1].serial}, 's', ['later']))
        want = {'return': [('ok', 'at once')], 'none': [('ok', 'later')]}.get(kind)
        res = [(k, v if k == 'ok' else getattr(v.value, 'errName', repr(v.value))) for k, v in out.results]
        if (want is not None and res != want) or (kind == 'error' and res != [('err', 'org.verif.AtOnce')]):
            w['results'] = res
            ctx.report('sync-reply', 'a reply delivered while the call was being written: call completed with %r' % (res,),
                       w, case)
            return
        try:
            CLOCK.advance(100)
        except Exception as e:
            ctx.report('timer-callback-raised', 'a timer raised %r after a synchronously answered call' % e, w, case)
            return
        live = [dc for dc in CLOCK.getDelayedCalls() if dc.active()]
        if out.fired != 1 or live or conn._pendingCalls:
            w['fired'] = out.fired
            ctx.report('sync-reply', 'after a synchronously answered call: fired %d times, %d timers, %d pending entries' % (
                out.fired, len(live), len(conn._pendingCalls)), w, case)
            for dc in live:
                dc.cancel()
            return


def build_calls(rng, n, scripts=None, deadline_all=None):
    calls = []
    for i in range(n):
        script = scripts[i] if scripts else rng.choice(SCRIPTS)
        needs_t = 'T' in script
        timeout = (1.0 + i) if (needs_t or (deadline_all if deadline_all is not None else rng.random() < 0.4)) else None
        calls.append(Call(i, script, rng.choice(BIG_BODIES if rng.random() < 0.06 else SMALL_BODIES),
                          rng.choice(['nocheck', 'nocheck', 'match', 'mismatch', 'expect-none']),
                          timeout, rng.random() < 0.7))
    return calls


def run(ctx):
    global CLOCK
    CLOCK = clientfix.install_clock()
    si, sn = ctx.shard or (0, 1)
    quick = ctx.tier == 'quick'
    ctx.rule = ('N concurrent calls with unique tokens; per call an event script from %d scripts over {reply, error, '
                'deadline, duplicate, late reply}; every permutation of the union of events for N <= 3 (sampled '
                'configurations), optional unsolicited replies and a connection loss at every position; random '
                'N <= 32. distinct_nontrivial = distinct (configuration, interleaving) executed' % len(SCRIPTS))
    rng = ctx.rng
    ctx.budget(50 if quick else 520)
    nconf = 0
    stop = False
    # exhaustive permutations for N <= 3
    for n in (1, 2, 3):
        combos = list(itertools.product(range(len(SCRIPTS)), repeat=n))
        rng.shuffle(combos)
        limit = {1: len(combos), 2: len(combos), 3: 400 if quick else len(combos)}[n]
        for ci, combo in enumerate(combos[:limit]):
            if ci % sn != si:
                continue
            scripts = [SCRIPTS[k] for k in combo]
            events = [(i, ev) for i, sc in enumerate(scripts) for ev in sc]
            if len(events) > 6:
                continue
            # permutations that keep each call's own script order (R before D, T before L, ...) and all others
            perms = set(itertools.permutations(range(len(events))))
            nconf += 1
            for pi, perm in enumerate(sorted(perms)):
                order = [events[k] for k in perm]
                # a duplicate before its original is just a reply: keep per-call order
                ok = True
                pos = {}
                for k, (i, ev) in enumerate(order):
                    pos.setdefault(i, []).append(ev)
                for i, evs in pos.items():
                    if tuple(evs) != scripts[i]:
                        ok = False
                        break
                if not ok:
                    continue
                r = random.Random('%s/%s/%s' % (ctx.seed, combo, pi))
                calls = build_calls(r, n, scripts)
                extra = []
                if r.random() < 0.5:
                    extra.append(('U', r.choice('RE')))
                if r.random() < 0.5:
                    extra.append(('X', 'X'))
                full = list(order)
                for e in extra:
                    full.insert(r.randint(0, len(full)), e)
                case = {'kind': 'perm', 'combo': list(combo), 'perm': pi, 'n': n}
                execute(ctx, calls, full, case)
                ctx.distinct('nontrivial_cases', (combo, tuple(full)))
                ctx.count('interleavings')
                if ctx.stop_early():
                    stop = True
                    break
            if stop or ctx.out_of_time():
                stop = True
                break
        if stop:
            break
    ctx.note('configurations_with_all_interleavings', nconf)
    ctx.exhaustive = False
    # random larger
    nr = (300 if quick else 6000) // sn
    for i in range(nr):
        r = random.Random('%s/c08rand/%s' % (ctx.seed, i * sn + si))
        n = r.choice([4, 6, 12, 32])
        calls = build_calls(r, n)
        events = []
        cursor = {}
        pools = [[(c.idx, ev) for ev in c.script] for c in calls]
        # random merge preserving per-call order
        while any(pools):
            k = r.choice([j for j, p in enumerate(pools) if p])
            events.append(pools[k].pop(0))
        for _ in range(r.randint(0, 3)):
            events.insert(r.randint(0, len(events)), ('U', r.choice('RE')))
        if r.random() < 0.5:
            events.insert(r.randint(0, len(events)), ('X', 'X'))
        execute(ctx, calls, events, {'kind': 'rand', 'idx': i * sn + si})
        ctx.distinct('nontrivial_cases', ('rand', i * sn + si))
        ctx.count('random_executions')
        if ctx.stop_early():
            break
    if si == 0:
        long_history(ctx)
        local_failures(ctx)
        synchronous_replies(ctx)
        fire_and_forget(ctx)
        proxy_declared_returns(ctx)
        local_close_with_replies_in_flight(ctx)
    ctx.sample({'calls': [c.describe() for c in build_calls(random.Random(1), 2, [('R', 'D'), ('T', 'L')])],
                'order': [[0, 'R'], [1, 'T'], ['U', 'E'], [0, 'D'], [1, 'L'], ['X', 'X']]})
    for k in ('first_return', 'first_error', 'first_timeout', 'first_loss'):
        ctx.require(ctx.counters.get(k, 0) > 0, 'no call was decided by %s' % k)
    ctx.require(ctx.counters.get('duplicates_or_late_injected', 0) > 0, 'no duplicate or late reply injected')


def replay(ctx, rp):
    global CLOCK
    CLOCK = clientfix.install_clock()
    w = rp.get('witness') or {}
    kind = (rp.get('case') or {}).get('kind')
    special = {'fire-and-forget': fire_and_forget, 'proxy-returns': proxy_declared_returns, 'local-close': local_close_with_replies_in_flight, 'sync-reply': synchronous_replies, 'long-history': long_history,
               'local-failure': local_failures}
    if kind in special:
        special[kind](ctx)
        return
    calls = [Call(d['idx'], tuple(d['script']), d['body'], d['ret'], d['timeout'], d['little']) for d in w['calls']]
    order = [(a, b) for a, b in w['order']]
    execute(ctx, calls, order, rp.get('case'))
