"""
C05 — malformed or hostile message bytes are rejected in bounded work.

Deciding monitor: the sys.monitoring step meter (harness/steps.py), counting interpreter
steps spent inside txdbus code.  Budget (committed constants, never calibrated on the tree
under test):

    steps <= K * (n + 64) * (8 + L*L/4)

n = input length, L = the longest run of signature-alphabet bytes in the input (>= 11, the
fixed header signature) — an upper bound of the longest signature string the decoder can be
handed; L <= 255 is a protocol constant, so this is "work proportional to the length".
Any Exception is a rejection (allowed); a BaseException, an exhausted budget, or a result /
allocation out of proportion to the input is a violation.
"""
import os
import random
import struct
import tracemalloc

from harness import ref_codec as R, ref_message as RM, simnet, steps
from harness.ref_codec import Variant
from checks.c03 import foreign_case
from checks.c04 import RecServer, SERVER_HS
from txdbus import marshal as M
from txdbus import message as MSG

PROP = 'C05'
LEVEL = 'exploration'
SHARDS = {'thorough': 16}

# committed budget constants (see DESIGN.md C05: >= 20x the worst ratio measured on the corpus)
K = 12.0
MEM_BASE = 4 * 1024 * 1024
MEM_PER_BYTE = 2048

SIGCHARS = set(b'ybnqiuxtdsoghav(){}')
METER = steps.METER
CALIBRATE = bool(os.environ.get('VERIF_CALIBRATE'))
_stats = {'max_ratio': 0.0, 'max_ratio_case': None, 'max_steps_per_byte': 0.0}


def _frame_length(data):
    from harness import ref_message
    try:
        return ref_message.frame_length(data)
    except Exception:
        return None


def sig_run(data):
    best = cur = 0
    for b in data:
        if b in SIGCHARS:
            cur += 1
            if cur > best:
                best = cur
        else:
            cur = 0
    return max(11, min(best, 255))


def budget(data, sig=None):
    """The separately supplied signature of unmarshal() is part of the hostile input."""
    L = sig_run(data)
    n = len(data)
    if sig:
        L = max(L, min(255, len(sig)))
        n += len(sig)
    return int(K * (n + 64) * (8 + L * L / 4.0))


def result_size(v, depth=0):
    """Rough count of objects in a decoded value."""
    if depth > 200:
        return 1
    if isinstance(v, (list, tuple)):
        return 1 + sum(result_size(x, depth + 1) for x in v)
    if isinstance(v, dict):
        return 1 + sum(result_size(k, depth + 1) + result_size(x, depth + 1) for k, x in v.items())
    if isinstance(v, (str, bytes)):
        return 1 + len(v) // 8
    return 1


_CANARY = {}


def canary(ctx, after):
    """A hostile decode may cost its sender its connection and nothing else: an ordinary message (of another
    connection of the same process) must still decode afterwards, to the same value."""
    if not _CANARY:
        body = [[('k', Variant('(is)', [5, 'y'])), ('l', Variant('as', ['a', 'b']))], [7, 'z'], [[1, 2], [3]]]
        _CANARY['raw'] = RM.build(RM.METHOD_CALL, 9, {'path': '/a', 'member': 'M', 'interface': 'a.b'}, 'a{sv}(is)aai', body)
        _CANARY['body'] = RM.parse(_CANARY['raw'], strict=True).body
    ctx.count('canary_decodes')
    try:
        m = MSG.parseMessage(_CANARY['raw'], [])
        ok = R.plain_eq(m.body, _CANARY['body'])
        err = None if ok else 'decoded %r' % (m.body,)
    except Exception as e:
        err = 'raised %r' % e
    if err:
        ctx.report('decoder-state-poisoned', 'after hostile input an ordinary, well-formed message no longer decodes (%s): '
                   'the damage is not confined to the sender of the hostile bytes' % err, after, {'kind': 'canary'})
        return False
    return True


def decode_one(ctx, data, klass, case, how='parse', sig=None):
    """Run one decode of hostile bytes under the meter and judge it."""
    r_ = _decode_one(ctx, data, klass, case, how, sig)
    if ctx.counters.get('evaluations', 0) % 64 == 0 and not _CANARY.get('dead'):
        if not canary(ctx, {'class': klass, 'how': how, 'last_hostile_bytes': data if len(data) <= 2048 else data[:2048]}):
            _CANARY['dead'] = True
    return r_


def _decode_one(ctx, data, klass, case, how='parse', sig=None):
    lim = budget(data, sig)
    nin = len(data) + len(sig or '')
    ctx.count('evaluations')
    ctx.count('decodes_' + how)
    if how == 'parse':
        out, val, n = METER.run(None if CALIBRATE else lim, MSG.parseMessage, data, [])
    elif how == 'unmarshal':
        out, val, n = METER.run(None if CALIBRATE else lim, M.unmarshal, sig, data, 0, True, [])
    else:
        ep = simnet.Endpoint(RecServer(), name='victim').connect()
        for piece in SERVER_HS:
            ep.feed(piece)
        holder = {}

        def feed():
            ep.proto.dataReceived(data)
            return ep
        out, val, n = METER.run(None if CALIBRATE else lim, feed)
    ratio = n / float(lim) * K
    if ratio > _stats['max_ratio']:
        _stats['max_ratio'] = ratio
        _stats['max_ratio_case'] = (klass, nin, sig_run(data), n)
    _stats['max_steps_per_byte'] = max(_stats['max_steps_per_byte'], n / float(nin + 64))
    w = {'class': klass, 'how': how, 'len': len(data), 'L': sig_run(data), 'steps': n, 'budget': lim,
         'bytes': data if len(data) <= 2048 else data[:2048]}
    if sig is not None:
        w['sig'] = sig
    if out == 'budget':
        ctx.report(classify_runaway(data, sig), 'decoding %d hostile bytes (%s, class %s) exceeded the step budget %d' % (
            len(data), how, klass, lim), w, case)
        ctx.count('outcome_budget')
        return 'budget'
    if out == 'base-exception':
        ctx.report('base-exception', 'decoding hostile bytes raised non-Exception %r' % (val,), w, case)
        return 'base'
    if out == 'exception':
        if isinstance(val, MemoryError):
            ctx.report('memory-error', 'decoding %d hostile bytes raised MemoryError' % len(data), w, case)
        ctx.count('outcome_exc_' + type(val).__name__)
        ctx.distinct('exception_types', type(val).__name__)
        return 'exception'
    ctx.count('outcome_decoded')
    if how == 'protocol' and len(data) >= 16 and _frame_length(data) == len(data) and data[1] in (1, 2, 3, 4):
        # (of a known type: the specification wants messages of unknown types ignored, which this does not judge)
        # one complete message went into a connection and the read returned normally: then the message was decoded and
        # handed on - or the decoder refuses these bytes, and the connection must be on its way out.  A refused message
        # that simply vanishes ends in neither way (and whatever it brought along, descriptors say, stays behind for the
        # next message)
        try:
            MSG.parseMessage(data, [])
            refused = None
        except Exception as e:
            refused = e
        if refused is not None:
            ctx.count('protocol_reads_of_refused_messages_returning_normally')
            if not val.proto.got and not (val.t.disconnecting or val.t.disconnected or val.lost):
                ctx.report('refused-message-vanishes',
                           'a message the decoder refuses (%r) was read by a connection without an exception, without '
                           'being delivered and without the connection being closed' % (refused,), w, case)
    if how != 'protocol':
        body = val[1] if how == 'unmarshal' else getattr(val, 'body', None)
        size = result_size(body)
        if size > 64 + 4 * nin:
            w['result_objects'] = size
            ctx.report('oversized-result', 'decoded value has %d objects for %d input bytes' % (size, nin), w, case)
    return 'ok'


def classify_runaway(data, sig):
    return None


# ------------------------------------------------------------------ corpora

def valid_messages(seed, n, shard):
    si, sn = shard or (0, 1)
    out = []
    i = 0
    while len(out) < n:
        raw, exp, body, info = foreign_case(seed, i * sn + si, allow_h=True, stream='c05valid')
        i += 1
        if len(raw) <= 400:
            out.append(raw)
    return out


HOSTILE_SIGS = [
    'a()', 'a{}', 'a(())', 'aa()', 'a(a())', 'a((()))', 'a{}{}', '()', '(())', '(', ')', '{', '}', 'a', 'aa', 'a{', 'a{s',
    '{ss}', 'a{ss', 'a{ss}}', 'a{sss}', 'a{vs}', 'a{(i)s}', 'i)', '(i', '((i)', 'z', 'ai z', '', 'a' * 255, 'a' * 254 + 'y',
    '(' * 200, ')' * 200, '(' * 127 + ')' * 127, '(' * 127 + 'i' + ')' * 127, '(' * 60 + 'i' + ')' * 60, 'a' * 100 + '()',
    'a(' * 100 + ')' * 100, 'a{s' * 60 + 'i' + '}' * 60, 'a{s' * 60, 'v' * 255, 'y' * 255, 'a(y)' * 60, '(a())', 'a(y())',
    'a(()y)', 'a(()())', 'a{()()}', 'av' * 100, 'a{}i', 'h' * 200, 'a(ii' , 'a(ii))', '((((((((((((((((((((i',
]


def hostile_header_message(sig, body, little=True):
    """Method call whose SIGNATURE header field is the hostile string and whose body is `body`."""
    e = '<' if little else '>'
    fields = [[1, Variant('o', '/a')], [3, Variant('s', 'M')]]
    hdr_wo = R.encode('yyyyuu', [ord('l') if little else ord('B'), 1, 0, 1, len(body), 7], 0, little)
    farr = bytearray()
    # a(yv) by hand so that the signature value need not be valid
    for code, var in fields:
        farr.extend(b'\0' * ((8 - (16 + len(farr)) % 8) % 8))
        farr.extend(R.encode('yv', [code, var], 16 + len(farr), little))
    farr.extend(b'\0' * ((8 - (16 + len(farr)) % 8) % 8))
    sb = sig.encode('latin-1')[:255]
    farr.extend(bytes([8, 1, ord('g'), 0, len(sb)]) + sb + b'\0')
    hdr = hdr_wo + struct.pack(e + 'I', len(farr)) + bytes(farr)
    hdr += b'\0' * ((8 - len(hdr) % 8) % 8)
    return hdr + body


def hostile_variant_body(sig, payload, little=True):
    sb = sig.encode('latin-1')[:255]
    return bytes([len(sb)]) + sb + b'\0' + payload


def hostile_payloads(rng, little=True):
    e = '<' if little else '>'
    yield b''
    for ln in (0, 1, 8, 9, 64, 2**31, 2**32 - 1):
        yield struct.pack(e + 'I', ln) + b'\0' * 4
        yield struct.pack(e + 'I', ln) + b'\0' * 4 + bytes(rng.randrange(256) for _ in range(24))
    yield bytes(rng.randrange(256) for _ in range(40))
    yield b'\0' * 64
    yield b'\xff' * 64


def variant_chain(depth, little=True):
    """variant in variant ... `depth` deep, ending in a byte."""
    return b'\x01v\x00' * depth + b'\x01y\x00\x07'


# ------------------------------------------------------------------ run

def run(ctx):
    METER.install()
    try:
        import resource
        # a decoder that allocates from a lying length must fail with MemoryError, not take the sandbox down
        resource.setrlimit(resource.RLIMIT_AS, (3 << 30, 3 << 30))
    except Exception:
        pass
    si, sn = ctx.shard or (0, 1)
    quick = ctx.tier == 'quick'
    rng = ctx.rng
    ctx.rule = ('valid foreign messages -> every truncation, every byte position x 12 mutations (<= 200 B), every aligned '
                'u32 replaced by lying lengths; hostile signatures (zero-size elements, unterminated, over-limit nesting, '
                'unknown codes) in the header and inside variants x lying payloads; deep variant chains; each decoded by '
                'parseMessage / unmarshal / dataReceived under a step meter with budget K*(n+64)*(8+L^2/4). '
                'distinct_nontrivial = distinct (mutation kind, position class / hostile signature, outcome)')
    ctx.assumptions.append('work done inside C primitives (slicing, struct, codecs) is invisible to the step meter')
    ctx.note('budget_constants', {'K': K, 'formula': 'K*(n+64)*(8+L*L/4)', 'mem': '%d + %d*n' % (MEM_BASE, MEM_PER_BYTE)})
    msgs = valid_messages(ctx.seed, 10 if quick else 30, ctx.shard)
    ctx.budget(45 if quick else 500)

    # 0. valid messages: baseline cost
    for raw in msgs:
        decode_one(ctx, raw, 'valid', {'kind': 'valid'}, 'parse')
        decode_one(ctx, raw, 'valid', {'kind': 'valid'}, 'protocol')

    # A. every truncation
    for mi, raw in enumerate(msgs):
        for cut in range(0, len(raw)):
            o = decode_one(ctx, raw[:cut], 'truncation', {'kind': 'trunc', 'msg': mi, 'cut': cut}, 'parse')
            ctx.distinct('nontrivial_cases', ('trunc', cut * 16 // max(1, len(raw)), o))
        if ctx.stop_early():
            return finish(ctx)
    ctx.count('truncated_messages', len(msgs))

    # B. every byte position x 12 mutations (for the per-type corpus: every byte of the body and of the signature field)
    nb = 0
    corpus = typed_corpus() if si == 0 else []
    ctx.count('typed_corpus_messages', len(corpus))
    body_from = {}
    for raw, start in corpus:
        body_from[len(msgs)] = max(16, start - 12)
        msgs = msgs + [raw]
    for mi, raw in enumerate(msgs):
        if len(raw) > 200:
            continue
        nb += 1
        for pos in range(body_from.get(mi, 0), len(raw)):
            orig = raw[pos]
            vals = [orig ^ (1 << b) for b in range(8)] + [0x00, 0xFF, (orig + 1) & 0xFF, (orig - 1) & 0xFF]
            if mi in body_from:
                # one-byte and low-order length bytes: values that read as small negative numbers when taken as signed
                vals += [0x80, 0x81, 0xF0, 0xF4, 0xF8, 0xFA, 0xFC, 0xFD, 0xFE, 0x7F]
            for k, v in enumerate(vals):
                if v == orig:
                    continue
                data = raw[:pos] + bytes([v]) + raw[pos + 1:]
                how = 'parse' if (pos + k) % 5 else 'protocol'
                o = decode_one(ctx, data, 'mutation', {'kind': 'mut', 'msg': mi, 'pos': pos, 'val': v}, how)
                ctx.distinct('nontrivial_cases', ('mut', k, 'hdr' if pos < 16 else 'fields' if pos < 64 else 'body', o))
            if ctx.stop_early():
                return finish(ctx)
        if ctx.out_of_time():
            break
    ctx.count('byte_mutated_messages', nb)
    ctx.exhaustive = not ctx.truncated

    # C. lying lengths at every aligned u32
    for mi, raw in enumerate(msgs):
        little = raw[0:1] == b'l'
        e = '<' if little else '>'
        for pos in range(0, len(raw) - 3, 4):
            cur = struct.unpack_from(e + 'I', raw, pos)[0]
            for v in (0, 1, cur - 1, cur + 1, 2**31, 2**32 - 1, len(raw), 2**26, 2**27):
                v &= 0xFFFFFFFF
                if v == cur:
                    continue
                data = raw[:pos] + struct.pack(e + 'I', v) + raw[pos + 4:]
                o = decode_one(ctx, data, 'lying-length', {'kind': 'len', 'msg': mi, 'pos': pos, 'val': v},
                               'parse' if pos % 8 else 'protocol')
                ctx.distinct('nontrivial_cases', ('len', v if v in (0, 1, 2**31, 2**32 - 1) else 'rel', o))
        if ctx.stop_early() or ctx.out_of_time():
            break

    # D. hostile signatures, in the header and inside a variant
    sigs = list(HOSTILE_SIGS)
    for i in range(40 if quick else 400):
        # random bracket soup
        n = rng.choice([3, 6, 12, 40, 120, 255])
        sigs.append(''.join(rng.choice('a(){}ysv') for _ in range(n)))
    for idx, sig in enumerate(sigs):
        if idx % sn != si:
            continue
        for little in (True, False):
            for payload in hostile_payloads(rng, little):
                data = hostile_header_message(sig, payload, little)
                o = decode_one(ctx, data, 'hostile-header-signature', {'kind': 'hsig', 'sig': sig}, 'parse')
                ctx.distinct('nontrivial_cases', ('hsig', sig[:24], o))
                if o == 'budget':
                    break
                body = hostile_variant_body(sig, payload, little)
                data = hostile_header_message('v', body, little)
                o = decode_one(ctx, data, 'hostile-variant-signature', {'kind': 'vsig', 'sig': sig},
                               'parse' if idx % 3 else 'protocol')
                ctx.distinct('nontrivial_cases', ('vsig', sig[:24], o))
                if o == 'budget':
                    break
                o = decode_one(ctx, payload, 'hostile-unmarshal', {'kind': 'usig', 'sig': sig}, 'unmarshal', sig=sig)
                if o == 'budget':
                    break
        ctx.count('hostile_signatures')
        if ctx.stop_early() or ctx.out_of_time():
            break

    # E. deep variant chains and deep nesting with matching data
    for depth in (10, 100, 1000, 5000) if si == 0 else ():
        data = hostile_header_message('v', variant_chain(depth))
        decode_one(ctx, data, 'variant-chain-%d' % depth, {'kind': 'chain', 'depth': depth}, 'parse')
        decode_one(ctx, data, 'variant-chain-%d' % depth, {'kind': 'chain', 'depth': depth}, 'protocol')
        ctx.count('variant_chains')
    for n in (31, 32, 33, 60, 120) if si == 0 else ():
        sig = '(' * n + 'y' + ')' * n
        data = hostile_header_message(sig, b'\x07')
        decode_one(ctx, data, 'deep-struct-%d' % n, {'kind': 'deep', 'n': n}, 'parse')
        sig = 'a' * n + 'y'
        data = hostile_header_message(sig, (b'\0' * 4) * n)
        decode_one(ctx, data, 'deep-array-%d' % n, {'kind': 'deep', 'n': n}, 'parse')
        # array of deep structs: the quadratic splitter repeated per element
        if n <= 120:
            sig = 'a' + '(' * n + 'y' + ')' * n
            body = struct.pack('<I', 8 * 40) + b'\0' * 4 + (b'\x07' + b'\0' * 7) * 40
            decode_one(ctx, hostile_header_message(sig, body), 'array-of-deep-struct-%d' % n, {'kind': 'deep', 'n': n},
                       'parse')

    # E2. large inputs: super-linear behaviour in n only shows at size
    if si == 0:
        for sig, elem, count in (('ay', b'\x07', 30000), ('ai', struct.pack('<i', 5), 8000),
                                 ('as', struct.pack('<I', 3) + b'abc\0', 4000),
                                 ('a(yx)', b'\x01' + b'\0' * 7 + b'\x02' + b'\0' * 7, 2500),
                                 ('av', b'\x01y\0\x07', 6000), ('aay', struct.pack('<I', 4) + b'abcd', 4000)):
            arr = elem * count
            body = struct.pack('<I', len(arr)) + (b'\0' * 4 if sig in ('a(yx)',) else b'') + arr
            data = hostile_header_message(sig, body)
            data = data[:4] + struct.pack('<I', len(body)) + data[8:]
            o = decode_one(ctx, data, 'large-' + sig, {'kind': 'large', 'sig': sig}, 'parse')
            ctx.count('large_inputs')
            decode_one(ctx, data, 'large-' + sig, {'kind': 'large', 'sig': sig}, 'protocol')
            decode_one(ctx, data[:len(data) // 2], 'large-truncated-' + sig, {'kind': 'large', 'sig': sig}, 'parse')
            ctx.distinct('nontrivial_cases', ('large', sig, o))
        # many small messages in one read
        many = b''.join(msgs[:5]) * 400
        decode_one(ctx, many, 'many-messages-one-read', {'kind': 'many'}, 'protocol')

    # E3. a hostile peer on the built-in bus: malformed bodies addressed to *another* connection must cost the sender
    #     its own connection only — the addressee never sees bytes that do not decode, and stays connected
    if si == 0:
        bus_forwarding(ctx, rng, 40 if quick else 400)
        hostile_names_through_bus(ctx)
        wrong_typed_header_fields(ctx)
        deep_header_values(ctx)
        nested_failure_probe(ctx)
        first_use_poisoning(ctx, rng)
        history_independence(ctx, rng)
        scaling_probe(ctx)
        step_scaling_probe(ctx)

    # F. memory, sampled
    if si == 0:
        memory_samples(ctx, msgs, rng)
    return finish(ctx)


class CpuBudgetExceeded(BaseException):
    pass


class cpu_guard:
    """CPU-time limit (ITIMER_VIRTUAL: processor time of this process, so machine load does not matter) around one
    operation.  The step meter cannot see work done inside C primitives - a regular expression that backtracks
    exponentially on a hostile name, say - but the processor time shows it; the limit is some four orders of
    magnitude above what these operations take."""

    def __init__(self, seconds):
        self.seconds = seconds
        self.fired = False

    def _handler(self, signum, frame):
        self.fired = True
        raise CpuBudgetExceeded()

    def __enter__(self):
        import signal
        self._old = signal.signal(signal.SIGVTALRM, self._handler)
        signal.setitimer(signal.ITIMER_VIRTUAL, self.seconds)
        return self

    def __exit__(self, et, ev, tb):
        import signal
        signal.setitimer(signal.ITIMER_VIRTUAL, 0)
        signal.signal(signal.SIGVTALRM, self._old)
        return et is CpuBudgetExceeded


def first_use_poisoning(ctx, rng):
    """The FIRST value of a container type that this process ever decodes may be a malformed one (a hostile peer gets
    there first).  Whatever the decoder remembers per type must not be left half-built by that failure: the next,
    well-formed value of the same type - from another peer - decodes to what it encodes."""
    from harness import gen as GEN
    codes = 'ybnqiuxtdsog'
    for k in range(40):
        members = ''.join(rng.choice(codes) for _ in range(rng.randint(2, 4)))
        if not any(c in members for c in 'sog'):
            members = members[:-1] + 's'
        for sig in ('(%s)' % members, 'a(%s)' % members, 'a{%s(%s)}' % (rng.choice('sqy'), members), 'a{s%s}' % members[0] + 'v'):
            little = rng.random() < 0.5
            g = GEN.Gen(rng, max_depth=2, allow_h=False)
            tv = g.values(sig)
            # containers must not be empty, or nothing of the member list is ever touched
            if sig.startswith('a') and not tv[0]:
                continue
            body = R.encode(sig, tv, 0, little)
            want = R.plain_list(sig, tv)
            hostile = []
            for cut in sorted(set(rng.randint(1, max(1, len(body) - 1)) for _ in range(4))):
                hostile.append(body[:cut])
            for pos in [i for i in range(len(body)) if body[i:i + 1].isalpha()][:3]:
                hostile.append(body[:pos] + b'\xff' + body[pos + 1:])          # not UTF-8 any more
            for h in hostile:
                try:
                    M.unmarshal(sig, h, 0, little, [])
                except Exception:
                    pass
                ctx.count('first_use_hostile_decodes')
            ctx.count('evaluations')
            try:
                n, vals = M.unmarshal(sig, body, 0, little, [])
                ok = n == len(body) and R.plain_eq(vals, want)
                err = None if ok else 'decoded %r (%d of %d bytes), encodes %r' % (vals, n, len(body), want)
            except Exception as e:
                err = 'raised %r' % e
            if err:
                ctx.report('decoder-state-poisoned', 'after malformed values of type %r were the first of that type to be decoded, '
                           'a well-formed one no longer decodes: %s' % (sig, err),
                           {'sig': sig, 'little': little, 'bytes': body, 'hostile_first': hostile[:3]}, {'kind': 'first-use'})
                return
            ctx.count('first_use_types_ok')


def scaling_probe(ctx):
    """Work proportional to the length: decoding a message four times as long may take about four times the processor
    time.  Measured in CPU time of this process (best of three, so load and collector pauses do not matter), on bodies
    made of very many small nested containers; a ratio above 6 for a factor of 4 in length (bodies of 0.4 and 1.6 MB), confirmed by a second, more
    careful measurement (linear code measures 3.9-4.1 here), is super-linear growth.  This sees what the step meter cannot: work inside C primitives that
    grows with the input (copying the buffer once per container, say)."""
    import time
    shapes = {
        'aay': lambda n: R.encode('aay', [[[] for _ in range(n)]], 0, True),
        'aas': lambda n: R.encode('aas', [[['x'] for _ in range(n)]], 0, True),
    }
    todo = [(sig, mk, 3) for sig, mk in shapes.items()]
    while todo:
        sig, mk, reps = todo.pop(0)
        times = []
        sizes = []
        for n in ((100000, 400000) if sig == 'aay' else (40000, 160000)):
            body = mk(n)
            hdr = RM.build(RM.SIGNAL, 9, {'path': '/a', 'member': 'M', 'interface': 'a.b'}, sig, [[]] if sig != 'a{sv}' else [[]])
            # splice the big body under a header with the right lengths
            e = '<'
            raw = bytearray(hdr[:len(hdr) - len(R.encode(sig, [[]], 0, True))])
            struct.pack_into(e + 'I', raw, 4, len(body))
            raw = bytes(raw) + body
            best = None
            for _ in range(reps):
                t0 = time.process_time()
                try:
                    MSG.parseMessage(raw, [])
                except Exception as ex:
                    ctx.report(None, 'scaling probe: a well-formed %d-byte %r message does not decode: %r' % (len(raw), sig, ex),
                               {'sig': sig, 'n': n}, {'kind': 'scaling'})
                    return
                dt = time.process_time() - t0
                best = dt if best is None else min(best, dt)
            times.append(best)
            sizes.append(len(raw))
        ctx.count('evaluations', 6)
        ctx.count('scaling_probes')
        ratio = times[1] / max(times[0], 1e-6)
        ctx.note('scaling_' + sig, {'bytes': sizes, 'cpu_seconds': [round(t, 4) for t in times], 'ratio': round(ratio, 2)})
        if ratio > 6.0 and times[1] > 0.3 and reps == 3:
            todo.insert(0, (sig, mk, 7))          # measure again, more carefully, before believing it
            continue
        if ratio > 6.0 and times[1] > 0.3:
            ctx.report('superlinear-work', 'decoding %r: %d bytes take %.3f s of processor time, %d bytes take %.3f s - a factor '
                       'of %.1f for 4 times the length' % (sig, sizes[0], times[0], sizes[1], times[1], ratio),
                       {'sig': sig, 'bytes': sizes, 'cpu_seconds': times}, {'kind': 'scaling'})
            return


def _raw_message(fields_bytes, body, little=True, mtype=4):
    """A message assembled by hand: `fields_bytes` is the header-field array content (entries already 8-aligned relative
    to offset 16)."""
    e = '<' if little else '>'
    hdr = bytes([ord('l') if little else ord('B'), mtype, 0, 1]) + struct.pack(e + 'II', len(body), 7) + \
        struct.pack(e + 'I', len(fields_bytes)) + fields_bytes
    hdr += b'\0' * ((8 - len(hdr) % 8) % 8)
    return hdr + body


def _field(code, vsig, payload, at):
    """One a(yv) entry placed at offset `at` (relative to the array start, which is 8-aligned): pad to 8, code byte,
    variant signature, then the caller's payload bytes (already padded by the caller for its own alignment)."""
    pad = b'\0' * ((8 - at % 8) % 8)
    return pad + bytes([code, len(vsig)]) + vsig.encode() + b'\0' + payload


def _string_value(txt, little, at):
    """A STRING aligned to 4 at absolute-in-array offset `at`."""
    e = '<' if little else '>'
    b = txt.encode('latin-1')
    return b'\0' * ((4 - at % 4) % 4) + struct.pack(e + 'I', len(b)) + b + b'\0'


def scaling_families():
    """k -> (name, raw message).  Each family grows in length about linearly with k."""
    def base_fields(little):
        out = b''
        for code, vs, txt in ((1, 'o', '/a'), (2, 's', 'a.b'), (3, 's', 'M')):
            ent = bytes([code, 1]) + vs.encode() + b'\0'
            at = len(out) + (8 - len(out) % 8) % 8 + len(ent)
            out += _field(code, vs, _string_value(txt, little, at), len(out))
        return out

    def sig_as(vtype, sig, little):
        f = base_fields(little)
        ent_at = len(f) + (8 - len(f) % 8) % 8 + 2 + len(vtype) + 1
        if vtype == 's':
            return f + _field(8, 's', _string_value(sig, little, ent_at), len(f))
        return f + _field(8, 'g', bytes([len(sig)]) + sig.encode() + b'\0', len(f))

    def fam_struct_members(k, little=True):
        # header field 8 (SIGNATURE) carried as a STRING: a(y()()...()) with k empty members, over k elements
        e = '<' if little else '>'
        sig = 'a(y' + '()' * k + ')'
        body = struct.pack(e + 'I', 8 * k) + b'\0' * 4 + (b'\x01' + b'\0' * 7) * k
        return _raw_message(sig_as('s', sig, little), body, little)

    def fam_dict_members(k, little=True):
        e = '<' if little else '>'
        sig = 'a{y' + '()' * k + '}'
        body = struct.pack(e + 'I', 8 * k) + b'\0' * 4 + (b'\x01' + b'\0' * 7) * k
        return _raw_message(sig_as('s', sig, little), body, little)

    def fam_flat_long_signature(k, little=True):
        return _raw_message(sig_as('s', 'y' * (8 * k), little), b'\x05' * (8 * k), little)

    def fam_many_arrays(k, little=True):
        # ay ay ay ... : 2k signature characters, k empty arrays of 4 bytes each
        return _raw_message(sig_as('s', 'ay' * (2 * k), little), b'\0' * (8 * k), little)

    def fam_unknown_fields(k, little=True):
        f = base_fields(little)
        for _ in range(k):
            f += _field(200, 'y', b'\x07', len(f))
        return _raw_message(f, b'', little)

    def fam_legal_signature(k, little=True):
        # the longest legal SIGNATURE (typed g, 255 characters) over a growing body: the constant is large, the growth linear
        e = '<' if little else '>'
        sig = 'a(y' + '()' * 125 + ')'
        body = struct.pack(e + 'I', 8 * k) + b'\0' * 4 + (b'\x01' + b'\0' * 7) * k
        return _raw_message(sig_as('g', sig, little), body, little)

    return [('signature-as-string/struct-members', fam_struct_members), ('signature-as-string/dict-members', fam_dict_members),
            ('signature-as-string/flat', fam_flat_long_signature), ('signature-as-string/many-arrays', fam_many_arrays),
            ('unknown-header-fields', fam_unknown_fields), ('legal-255-signature', fam_legal_signature)]


def step_scaling_probe(ctx):
    """Work proportional to the length, in interpreter steps (deterministic, so no timing noise): every family of hostile
    messages is decoded at two sizes a factor 4 apart; steps per byte may not grow by more than a factor 2 (linear work:
    1.0; quadratic: 4).  A decode that ends in an exception is as good as one that ends in a message."""
    for name, fam in scaling_families():
        for little in (True, False):
            per_byte = []
            sizes = []
            stepsl = []
            for k in (300, 1200):
                raw = fam(k, little)
                out, val, n = METER.run(40000000, MSG.parseMessage, raw, [])
                sizes.append(len(raw))
                stepsl.append(n)
                per_byte.append(n / float(len(raw)))
                ctx.count('evaluations')
                ctx.distinct('scaling_outcomes', (name, out if out in ('ok', 'budget') else 'exception'))
            ctx.count('step_scaling_probes')
            growth = per_byte[1] / max(per_byte[0], 1e-9)
            ctx.note('step_scaling_' + name + ('' if little else '/big-endian'),
                     {'bytes': sizes, 'steps': stepsl, 'steps_per_byte_growth': round(growth, 2)})
            if growth > 2.0 and stepsl[1] > 20000:
                case = {'kind': 'step-scaling', 'family': name, 'little': little}
                ctx.report(classify_scaling(name), 'decoding the %s family: %d bytes take %d steps, %d bytes take %d steps - steps '
                           'per byte grow by a factor %.1f for %.1f times the length' % (
                               name, sizes[0], stepsl[0], sizes[1], stepsl[1], growth, sizes[1] / float(sizes[0])),
                           {'family': name, 'bytes': sizes, 'steps': stepsl, 'little': little}, case)
                break


def classify_scaling(name):
    if name.startswith('signature-as-string'):
        return 'signature-header-unbounded'
    return 'superlinear-work'


def history_independence(ctx, rng):
    """The work one message costs does not depend on how many messages the process has seen before.  A fixed set of probe
    messages is decoded and passed on the way the built-in bus does (parse, stamp the sender, write out again with the
    body as received); then a history of several hundred other legal messages - every type, every header field, UNIX_FDS
    counts included - goes the same way; then the probes again.  Steps (deterministic) and output bytes must be the same."""
    def pass_on(raw):
        m = MSG.parseMessage(raw, [])
        m.sender = ':1.77'
        m._marshal(False, rawBody=m.rawBody)
        return m.rawMessage

    def mk(mtype, serial, extra, sig, body, little):
        f = {}
        if mtype in (1, 4):
            f.update(path='/a/b', member='M', interface='a.b')
        if mtype in (2, 3):
            f['reply_serial'] = 9
        if mtype == 3:
            f['error_name'] = 'a.b.E'
        f.update(extra)
        return RM.build(mtype, serial, f, sig, body, little)

    probes = []
    for mtype in (1, 2, 3, 4):
        for extra in ({}, {'unix_fds': 0}, {'unix_fds': 2}, {'destination': 'x.y', 'sender': ':1.5'}):
            for little in (True, False):
                probes.append(mk(mtype, 40 + len(probes), extra, 'su', ['probe', 7], little))

    def measure():
        out = []
        for raw in probes:
            res, val, n = METER.run(5000000, pass_on, raw)
            out.append((n, val if res == 'ok' else repr(val)))
        return out

    before = measure()
    history = 0
    for k in range(300):
        mtype = 1 + k % 4
        extra = [{}, {'unix_fds': 0}, {'unix_fds': 1}, {'unix_fds': 3}, {'destination': 'q.r'}][k % 5]
        sig, body = [('', []), ('s', ['h%d' % k]), ('as', [['a', 'b']]), ('a{sv}', [{}])][(k // 5) % 4]
        try:
            pass_on(mk(mtype, 1000 + k, extra, sig, body, k % 3 != 0))
            history += 1
        except Exception:
            ctx.count('history_messages_refused')
    after = measure()
    ctx.count('evaluations', 2 * len(probes) + 300)
    ctx.count('history_independence_probes', len(probes))
    ctx.note('history_independence', {'probes': len(probes), 'history_messages_passed_on': history,
                                      'steps_first_probe_before_after': [before[0][0], after[0][0]]})
    for i, ((n0, o0), (n1, o1)) in enumerate(zip(before, after)):
        case = {'kind': 'history', 'probe': i}
        w = {'probe_hex': probes[i].hex(), 'steps_before': n0, 'steps_after': n1, 'history_messages': history,
             'out_before': o0 if isinstance(o0, str) else o0.hex(), 'out_after': o1 if isinstance(o1, str) else o1.hex()}
        if o0 != o1:
            ctx.report('history-dependent-output', 'passing on one and the same %d-byte message gives %s before and %s after '
                       '%d other messages went through the process' % (
                           len(probes[i]), '%d bytes' % len(o0) if isinstance(o0, bytes) else o0,
                           '%d bytes' % len(o1) if isinstance(o1, bytes) else o1, history), w, case)
            return
        if n1 > n0 * 1.25 + 20:
            ctx.report('history-dependent-work', 'passing on one and the same message took %d steps before and %d steps after '
                       '%d other messages went through the process' % (n0, n1, history), w, case)
            return


def hostile_names_through_bus(ctx):
    """Names in header fields are part of the hostile input too, and the bus looks at them when it passes a message
    on: long runs of legal characters with one illegal character at the end (the shape on which a backtracking pattern
    explodes), for every header field that holds a name."""
    from harness import busnet
    net = busnet.Net()
    victim = net.raw_client()
    attacker = net.raw_client()
    if not victim.unique or not attacker.unique:
        return
    for n in (16, 24, 32, 64, 200):
        run = 'a' * n
        variants = [('path', '/' + run + '!'), ('path', '/' + '/'.join(['ab'] * (n // 3)) + '~'), ('interface', 'a.' + run + '!'),
                    ('interface', '.'.join(['ab'] * (n // 3)) + '-'), ('member', run + '!'), ('destination', 'a.' + run + '!'),
                    ('sender', ':1.' + run + '!'), ('error_name', 'a.' + run + '!'), ('path', '/' + run + '/' + run + '//')]
        for field, value in variants:
            mtype = RM.ERROR if field == 'error_name' else RM.SIGNAL
            fields = {'path': '/a', 'member': 'M', 'interface': 'a.b', 'destination': victim.unique}
            if mtype == RM.ERROR:
                fields = {'reply_serial': 5, 'error_name': 'a.b', 'destination': victim.unique}
            fields[field] = value
            raw = RM.build(mtype, 60, fields, 's', ['x'])
            ctx.count('evaluations')
            ctx.count('hostile_names_through_bus')
            if attacker.server.lost or attacker.closed_by_bus:
                net.clients.remove(attacker)
                attacker = net.raw_client()
            g = cpu_guard(8.0)
            with g:
                attacker.send_raw(raw)
            if g.fired:
                ctx.report('cpu-time-exceeded', 'the bus spent more than %.0f s of processor time on a %d-byte message whose '
                           '%s field is %d legal characters and one illegal one' % (g.seconds, len(raw), field, n),
                           {'field': field, 'value': value, 'bytes': raw}, {'kind': 'hostile-names'})
                return
            victim.take()
    ctx.distinct('nontrivial_cases', ('hostile-names',))


def bus_forwarding(ctx, rng, per_message):
    from harness import busnet
    net = busnet.Net()
    victim = net.raw_client()
    attacker = net.raw_client()
    honest = net.raw_client()
    if not victim.unique or not attacker.unique or not honest.unique:
        ctx.report('bus-unusable', 'scripted clients cannot attach to the built-in bus (Hello unanswered) after the hostile '
                   'decodes of this run', {'victim': victim.unique, 'attacker': attacker.unique}, {'kind': 'busfwd'})
        return
    bodies = [('s', ['hello world']), ('as', [['a', 'bc', 'def']]), ('a{sv}', [[('k', Variant('u', 7)), ('l', Variant('s', 'x'))]]),
              ('v', [Variant('(is)', [5, 'y'])]), ('ay', [list(range(20))]), ('sd', ['x', 1.5])]
    for sig, body in bodies:
        for mtype in (RM.METHOD_CALL, RM.SIGNAL, RM.METHOD_RETURN):
            fields = {'destination': victim.unique}
            if mtype in (RM.METHOD_CALL, RM.SIGNAL):
                fields.update(path='/a', member='M', interface='a.b')
            else:
                fields['reply_serial'] = 9
            raw = RM.build(mtype, 50, fields, sig, body, rng.random() < 0.7)
            body_len = len(R.encode(sig, body, 0, raw[0:1] == b'l'))
            start = len(raw) - body_len
            positions = list(range(start, len(raw)))
            rng.shuffle(positions)
            # ... and the fixed header (byte-order flag, type, flags, version, lengths) plus some header-field bytes
            hdr_positions = list(range(0, 16)) + rng.sample(range(16, start), min(6, max(0, start - 16)))
            for pos in hdr_positions + positions[:per_message]:
                orig = raw[pos]
                for v in (orig ^ 0x80, orig ^ 0x01, 0x00, 0xFF, (orig + 1) & 0xFF) + ((0x58, 0x4c) if pos == 0 else ()):
                    if v == orig:
                        continue
                    data = raw[:pos] + bytes([v]) + raw[pos + 1:]
                    if attacker.server.lost or attacker.closed_by_bus:
                        net.clients.remove(attacker)
                        attacker = net.raw_client()
                        ctx.count('attackers_dropped')
                    elif pos < start:
                        # a lying length field may have left the previous attacker's own stream waiting for more bytes
                        attacker.disconnect()
                        net.clients.remove(attacker)
                        attacker = net.raw_client()
                    attacker.serial += 1
                    attacker.send_raw(data)
                    ctx.count('evaluations')
                    ctx.count('bus_forwarded_hostile')
                    if pos < start:
                        ctx.count('bus_forwarded_hostile_header')
                    # an honest third connection talks to the same addressee right afterwards: it must get through
                    canary_tok = 'canary-%d' % ctx.counters['bus_forwarded_hostile']
                    if honest.server.lost or honest.closed_by_bus:
                        ctx.report('bystander-dropped', 'a hostile message from one connection cost a THIRD connection its '
                                   'link to the bus', {'bytes': data}, {'kind': 'busfwd'})
                        return
                    honest.call('Canary', 's', [canary_tok], destination=victim.unique, path='/c', interface='c.d')
                    got = victim.take()
                    w = {'sig': sig, 'type': mtype, 'pos': pos - start, 'value': v, 'bytes': data}
                    if not any(m.body == [canary_tok] for m in got if not m.malformed):
                        w['victim_pending_bytes'] = len(victim.bin)
                        ctx.report('bystander-stalled', 'after a hostile message addressed to it was passed on by the bus, the '
                                   'addressee no longer receives an honest message from a third connection (%d bytes sit '
                                   'unframed in its stream)' % len(victim.bin), w, {'kind': 'busfwd'})
                        return
                    got = [m for m in got if m.body != [canary_tok]]
                    # judged with txdbus' own decoder, as a txdbus addressee would apply it: the statement allows decoding
                    # to end "with a decoded message", so what txdbus decodes (e.g. a NUL inside a string) is not held
                    # against the bus even where the reference reader is stricter
                    for m in got:
                        try:
                            MSG.parseMessage(m.raw, [])
                        except Exception as e:
                            w['addressee_error'] = repr(e)
                            ctx.report('malformed-forwarded', 'the bus forwarded to ANOTHER connection a message that '
                                       'txdbus itself cannot decode (%r): the addressee, not the sender, pays' % e,
                                       w, {'kind': 'busfwd'})
                            return
                        if m.malformed:
                            ctx.count('bus_forwarded_lenient_only')
                    if victim.server.lost or victim.closed_by_bus or victim.server.crashes:
                        ctx.report('bystander-dropped', 'a hostile message from one connection cost ANOTHER connection its '
                                   'link to the bus', w, {'kind': 'busfwd'})
                        return
                    ctx.distinct('nontrivial_cases', ('busfwd', sig, mtype, bool(got)))


def wrong_typed_header_fields(ctx):
    """Every header field is a (code, VARIANT) pair, so a peer can send any field with a value of any type - well-formed
    bytes, wrong meaning.  Sent through the built-in bus to another connection: whatever the bus does with it (refuse it
    and drop the sender, or pass something on), what reaches the addressee must be decodable by the addressee, and an
    honest third party must still get through to it."""
    from harness import busnet
    net = busnet.Net()
    victim = net.raw_client()
    attacker = net.raw_client()
    honest = net.raw_client()
    values = [('y', 0), ('y', 7), ('b', False), ('u', 0), ('u', 5), ('i', -1), ('x', 0), ('d', 0.0), ('s', ''), ('s', 'zz'),
              ('g', ''), ('g', 'i'), ('o', '/'), ('as', []), ('as', ['s']), ('ay', []), ('ay', [115]), ('(i)', [0]),
              ('a{ss}', []), ('v', Variant('s', 's')), ('v', Variant('u', 0))]
    names = {1: 'path', 2: 'interface', 3: 'member', 4: 'error_name', 5: 'reply_serial', 6: 'destination', 7: 'sender',
             8: 'signature', 9: 'unix_fds'}
    n = 0
    for code in range(1, 10):
        for vsig, val in values:
            for mtype in (RM.METHOD_CALL, RM.SIGNAL, RM.METHOD_RETURN, RM.ERROR):
                for with_body in (False, True):
                    if attacker.server.lost or attacker.closed_by_bus:
                        net.clients.remove(attacker)
                        attacker = net.raw_client()
                        ctx.count('attackers_dropped')
                    fields = {'destination': victim.unique}
                    if mtype in (RM.METHOD_CALL, RM.SIGNAL):
                        fields.update(path='/a', member='M', interface='a.b')
                    else:
                        fields['reply_serial'] = 9
                    if mtype == RM.ERROR:
                        fields['error_name'] = 'a.b.E'
                    if code == 6 and val in ('', 'zz', 's', '/', 'i'):
                        continue       # a destination that is merely another (possibly unknown) name is ordinary traffic
                    fields.pop(names[code], None)
                    sig, body = ('s', ['payload']) if with_body and code != 8 else ('', [])
                    little = n % 3 != 0
                    raw = RM.build(mtype, 60 + n, fields, sig, body, little, extra_fields=[(code, Variant(vsig, val))])
                    if with_body and code == 8:
                        # a body is there although the "signature" is not one
                        bb = R.encode('s', ['payload'], 0, little)
                        raw = raw[:4] + struct.pack('<I' if little else '>I', len(bb)) + raw[8:] + bb
                    n += 1
                    attacker.send_raw(raw)
                    ctx.count('evaluations')
                    ctx.count('wrong_typed_header_fields_sent')
                    tok = 'canary-h%d' % n
                    if honest.server.lost or honest.closed_by_bus:
                        ctx.report('bystander-dropped', 'a message with a wrong-typed header field cost a THIRD connection its '
                                   'link to the bus', {'bytes': raw}, {'kind': 'wrong-typed-header'})
                        return
                    honest.call('Canary', 's', [tok], destination=victim.unique, path='/c', interface='c.d')
                    got = victim.take()
                    w = {'field': names[code], 'sent_as': vsig, 'value': repr(val), 'type': mtype, 'bytes': raw}
                    case = {'kind': 'wrong-typed-header', 'field': code, 'vsig': vsig}
                    if not any(m.body == [tok] for m in got if not m.malformed):
                        ctx.report('bystander-stalled', 'after a message whose %s header field was sent as %r, the addressee no '
                                   'longer receives an honest message' % (names[code], vsig), w, case)
                        return
                    for m in got:
                        if m.body == [tok]:
                            continue
                        ctx.count('wrong_typed_header_fields_passed_on')
                        try:
                            MSG.parseMessage(m.raw, [])
                        except Exception as e:
                            w['addressee_error'] = repr(e)
                            w['forwarded'] = m.raw
                            ctx.report('malformed-forwarded-header-type', 'a message whose %s header field was sent as %r '
                                       '(value %r) was passed on by the bus in a form the addressee cannot decode (%r): the '
                                       'addressee, not the sender, pays' % (names[code], vsig, val, e), w, case)
                            return
                    if victim.server.lost or victim.closed_by_bus or victim.server.crashes:
                        ctx.report('bystander-dropped', 'a message with a wrong-typed %s header field cost ANOTHER connection '
                                   'its link to the bus' % names[code], w, case)
                        return


def deep_header_values(ctx):
    """A header field whose value is a deeply nested (legal) variant - single-element arrays nested 8 to 28 deep - sent
    through the built-in bus, which decodes the message and writes its header out again: the work stays in proportion to
    the length of the message (a few hundred bytes)."""
    from harness import busnet
    net = busnet.Net()
    victim = net.raw_client()
    attacker = net.raw_client()
    names = {2: 'interface', 3: 'member', 4: 'error_name', 6: 'destination', 7: 'sender', 1: 'path'}
    base_steps = {}
    for code in (2, 3, 4, 6, 7, 1):
        for depth in (1, 8, 16, 22, 28):
            if attacker.server.lost or attacker.closed_by_bus:
                net.clients.remove(attacker)
                attacker = net.raw_client()
            val = 7
            for _ in range(depth):
                val = [val]
            mtype = RM.ERROR if code == 4 else RM.SIGNAL
            fields = {'destination': victim.unique}
            if mtype == RM.SIGNAL:
                fields.update(path='/a', member='M', interface='a.b')
            else:
                fields.update(reply_serial=9, error_name='a.b.E')
            fields.pop(names[code], None)
            raw = RM.build(mtype, 70 + depth, fields, '', [], True, extra_fields=[(code, Variant('a' * depth + 'i', val))])
            out, val_, n = METER.run(3000000, attacker.send_raw, raw)
            victim.take()
            ctx.count('evaluations')
            ctx.count('deep_header_values_sent')
            base_steps.setdefault(code, n)
            case = {'kind': 'deep-header-value', 'field': code, 'depth': depth}
            w = {'field': names[code], 'depth': depth, 'bytes': len(raw), 'steps': n, 'steps_at_depth_1': base_steps[code]}
            if out == 'budget' or n > 40 * (base_steps[code] + 200) + 400 * depth * depth:
                ctx.report('runaway-on-pass-on', 'a %d-byte message whose %s header field is an array nested %d deep cost the '
                           'bus %s steps (%d at depth 1)' % (len(raw), names[code], depth,
                                                             'more than 3000000' if out == 'budget' else n, base_steps[code]),
                           w, case)
                return
    ctx.note('deep_header_values', {'steps_at_depth_1': base_steps})


def nested_failure_probe(ctx):
    """A message that fails to decode at its innermost value, beneath d levels of nested containers (an a{sv} inside an
    a{sv} ..., a (v) inside a (v) ...): rejecting it costs work in proportion to its length (which grows with d), whatever
    d is - a decoder that tries again on failure at every level would double the work with each level."""
    shapes = {
        'vardict': ('a{sv}', lambda inner: [('k', inner)], lambda: Variant('u', 7)),
        'struct-variant': ('(v)', lambda inner: [inner], lambda: Variant('u', 7)),
        'array-of-variant': ('av', lambda inner: [inner], lambda: Variant('u', 7)),
    }
    for name, (sig, wrap, leaf) in shapes.items():
        for little in (True, False):
            base = None
            for depth in (2, 6, 10, 14, 18, 24):
                val = leaf()
                for _ in range(depth):
                    val = Variant(sig, wrap(val))
                raw = RM.build(RM.SIGNAL, 9, {'path': '/a', 'member': 'M', 'interface': 'a.b'}, sig, [val.value], little)
                for damage in ('truncated', 'lying-length'):
                    if damage == 'truncated':
                        bad = bytearray(raw[:-2])
                        blen = struct.unpack_from('<I' if little else '>I', raw, 4)[0] - 2
                        struct.pack_into('<I' if little else '>I', bad, 4, blen)
                    else:
                        bad = bytearray(raw)
                        bad[-4:] = b'\xff\xff\xff\x7f' if little else b'\x7f\xff\xff\xff'
                    out, val_, n = METER.run(6000000, MSG.parseMessage, bytes(bad), [])
                    ctx.count('evaluations')
                    ctx.count('nested_failure_probes')
                    if base is None:
                        base = (n, len(bad))
                    per_byte0 = base[0] / float(base[1])
                    case = {'kind': 'nested-failure', 'shape': name, 'depth': depth, 'damage': damage, 'little': little}
                    w = {'shape': name, 'depth': depth, 'bytes': len(bad), 'steps': n, 'steps_at_depth_2': base[0],
                         'bytes_at_depth_2': base[1], 'outcome': out}
                    # the constant may grow with the nesting depth (see section 4: quadratic in depth), not with 2**depth
                    if out == 'budget' or n > 12 * per_byte0 * len(bad) * (1 + depth * depth / 16.0) + 20000:
                        ctx.report('retry-on-failure-blowup', 'rejecting a %d-byte message damaged beneath %d nested %s levels '
                                   'took %s steps (%d steps for %d bytes at 2 levels)' % (
                                       len(bad), depth, name, 'more than 6000000' if out == 'budget' else n, base[0], base[1]),
                                   w, case)
                        return


def typed_corpus():
    """Small valid messages that between them send every type code through its decoder, also as array element, dict
    value and variant content, in both byte orders: single-byte damage to a length or a count is then tried on every
    kind of length field there is (u32 lengths, the one-byte signature length, array byte counts)."""
    bodies = [('g', ['ii']), ('ag', [['', 'ii', 'a{sv}']]), ('a(sg)', [[['k', 'i'], ['l', 'as']]]),
              ('a{sg}', [[('k', 'ii'), ('l', 'u')]]), ('av', [[Variant('g', 'ai'), Variant('s', 'x')]]),
              ('ao', [['/a', '/bc/d']]), ('as', [['a', 'bc', '']]), ('a{sv}', [[('k', Variant('ay', [1, 2, 3]))]]),
              ('aay', [[[1, 2], [], [3]]]), ('a(yx)', [[[1, 2], [3, 4]]]), ('ad', [[1.5, -2.0]]), ('ab', [[True, False]]),
              ('(s(ig)v)', [['x', [1, 'i'], Variant('(ii)', [1, 2])]]), ('nqiuxt', [-1, 2, -3, 4, -5, 6]),
              ('aau', [[[1], [2, 3]]]), ('a{oa{sv}}', [[('/p', [('k', Variant('b', True))])]])]
    # descriptor indices (type h) in every container position; decoded, as on a connection that holds no pending
    # descriptor, against an empty list
    bodies_h = [('ah', [[0, 1]], 2), ('a(yh)', [[[1, 0], [2, 1]]], 2), ('a{yh}', [[(1, 0), (2, 1)]], 2), ('hsh', [0, 'x', 1], 2),
                ('v', [Variant('ah', [0])], 1), ('aah', [[[0], [], [1]]], 2)]
    out = []
    for sig, body, nfd in [b + (0,) for b in bodies] + bodies_h:
        for little in (True, False):
            f = {'path': '/a', 'member': 'M', 'interface': 'a.b'}
            if nfd:
                f['unix_fds'] = nfd
            raw = RM.build(RM.SIGNAL, 7, f, sig, body, little)
            blen = len(R.encode(sig, body, 0, little))
            out.append((raw, len(raw) - blen))
    return out


def memory_samples(ctx, msgs, rng):
    cases = []
    for raw in msgs[:4]:
        cases.append(raw)
        little = raw[0:1] == b'l'
        e = '<' if little else '>'
        for pos in (4, 12):
            cases.append(raw[:pos] + struct.pack(e + 'I', 2**27) + raw[pos + 4:])
    cases.append(hostile_header_message('ay', struct.pack('<I', 2**31)))
    cases.append(hostile_header_message('s', struct.pack('<I', 2**32 - 1) + b'abc'))
    cases.append(hostile_header_message('as', struct.pack('<I', 2**26) + b'\0' * 64))
    cases.append(hostile_header_message('ay', struct.pack('<I', 60000) + bytes(60000)))
    for data in cases:
        tracemalloc.start()
        try:
            METER.run(budget(data), MSG.parseMessage, data, [])
        finally:
            cur, peak = tracemalloc.get_traced_memory()
            tracemalloc.stop()
        ctx.count('evaluations')
        ctx.count('memory_samples')
        ctx.counters['max_peak_bytes_per_input_byte'] = max(ctx.counters.get('max_peak_bytes_per_input_byte', 0),
                                                            peak // (len(data) + 64))
        if peak > MEM_BASE + MEM_PER_BYTE * len(data):
            ctx.report('memory-blowup', 'decoding %d bytes allocated %d bytes' % (len(data), peak),
                       {'len': len(data), 'peak': peak, 'bytes': data[:256]}, {'kind': 'mem'})


def finish(ctx):
    ctx.note('max_observed_ratio_of_budget', round(_stats['max_ratio'] / K, 5))
    ctx.note('max_observed_case', _stats['max_ratio_case'])
    ctx.note('max_steps_per_byte', round(_stats['max_steps_per_byte'], 2))
    ctx.note('meter', {'code_objects_instrumented': METER.ncode,
                       'functions_reached': len(METER.calls)})
    ctx.sample({'hostile_header_message_hex': hostile_header_message('a()', struct.pack('<I', 8) + b'\0' * 12).hex(),
                'signature': 'a()'})
    ctx.sample({'variant_chain_depth_10_hex': hostile_header_message('v', variant_chain(10)).hex()})
    if CALIBRATE:
        print('CALIBRATION: max ratio steps/((n+64)(8+L^2/4)) = %.4f at %r; max steps/byte %.1f' % (
            _stats['max_ratio'], _stats['max_ratio_case'], _stats['max_steps_per_byte']))
    ctx.require(METER.ncode > 50, 'step meter instrumented only %d code objects' % METER.ncode)
    # reach: the meter must have observed the decoder at work (by volume, not by function names, so that a
    # refactored decoder does not make the check inconclusive)
    ctx.note('functions_reached', sorted(METER.calls)[:40])
    ctx.require(len(METER.calls) >= 5 and sum(METER.calls.values()) > 10000,
                'step meter saw almost nothing of txdbus run (%d functions)' % len(METER.calls))
    ctx.require(ctx.counters.get('evaluations', 0) > 5000, 'too few decodes')


def replay(ctx, rp):
    METER.install()
    w = rp.get('witness') or {}
    data = bytes.fromhex(w['bytes']['hex']) if isinstance(w.get('bytes'), dict) else b''
    decode_one(ctx, data, w.get('class', 'replay'), rp.get('case'), w.get('how', 'parse'), sig=w.get('sig'))
