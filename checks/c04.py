"""
C04 — message framing is independent of how the byte stream is split into reads.

A recording BasicDBusProtocol subclass (server and client flavour, real handshake run first)
receives message sequences under enumerated and random partitions of the byte stream; the
sequence of handler invocations must equal the sequence sent.
"""
import random

from harness import simnet
from harness.msgview import FIELDS, tx_view, compare_view
from checks.c03 import foreign_case
from txdbus import authentication, message as MSG, protocol

PROP = 'C04'
LEVEL = 'exploration'
SHARDS = {'thorough': 16}

GUID = b'0123456789abcdef0123456789abcdef'


class _Bus:
    uuid = GUID


class _Factory:
    bus = _Bus()


class RecServer(protocol.BasicDBusProtocol):
    _client = False
    authenticator = authentication.BusAuthenticator
    factory = _Factory()

    def __init__(self):
        self.got = []
        self.auth_calls = 0

    def connectionAuthenticated(self):
        self.auth_calls += 1

    pending_pieces = None      # set by the re-entrant scenario: reads still to come

    def _pull(self):
        # an in-process peer (loopback transport, embedded bus) answers synchronously: the next read arrives while
        # the handler of the current message is still running
        if self.pending_pieces:
            self.dataReceived(self.pending_pieces.pop(0))

    def methodCallReceived(self, m):
        self.got.append(('call', m))
        self._pull()

    def methodReturnReceived(self, m):
        self.got.append(('return', m))
        self._pull()

    def errorReceived(self, m):
        self.got.append(('error', m))
        self._pull()

    def signalReceived(self, m):
        self.got.append(('signal', m))
        self._pull()


class RecClient(RecServer):
    _client = True
    authenticator = authentication.ClientAuthenticator


HANDLER_OF = {1: 'call', 2: 'return', 3: 'error', 4: 'signal'}

SERVER_HS = [b'\0', b'AUTH ANONYMOUS\r\n', b'BEGIN\r\n']
CLIENT_HS = [b'OK ' + GUID + b'\r\n']


def make(mode):
    p = RecServer() if mode == 'server' else RecClient()
    ep = simnet.Endpoint(p, name=mode).connect()
    return ep


def handshake_bytes(mode):
    return b''.join(SERVER_HS if mode == 'server' else CLIENT_HS)


def exp_key(exp, body):
    return (exp['type'], exp['serial'], exp['expectReply'], exp['autoStart'],
            tuple((exp.get(f) or '') if f == 'signature' else exp.get(f) for f in FIELDS), repr(list(body or [])))


def got_key(kind, m):
    v = tx_view(m)
    return (v['type'], v['serial'], v['expectReply'], v['autoStart'],
            tuple((v[f] or '') if f == 'signature' else v[f] for f in FIELDS), repr(list(v['body'] or [])))


def make_sequence(seed, idx, nmsgs, small=False):
    """List of (raw, exp, body) — foreign messages in both byte orders, all four types."""
    r = random.Random('%s/c04seq/%s' % (seed, idx))
    out = []
    for i in range(nmsgs):
        k = r.randrange(1 << 30)
        raw, exp, body, info = foreign_case(seed, k, allow_h=False, stream='c04', max_depth=1 if small else None)
        if small and len(raw) > 120:
            # keep short streams short: a bare message of that type
            raw, exp, body, info = foreign_case(seed, k % 8, allow_h=False, stream='c04tiny', max_depth=1)
            tries = 0
            while len(raw) > 120 and tries < 50:
                tries += 1
                raw, exp, body, info = foreign_case(seed, (k + 8 * tries) % 4096, allow_h=False, stream='c04tiny',
                                                    max_depth=1)
        exp = dict(exp)
        exp.pop('unix_fds', None)
        out.append((raw, exp, body))
    return out


def crlf_sequence(seed, idx):
    """Messages whose bytes contain CRLF: in string bodies and in length fields equal to 0x0A0D."""
    from harness import ref_message as RM
    r = random.Random('%s/c04crlf/%s' % (seed, idx))
    out = []
    for i in range(r.randint(1, 3)):
        little = r.random() < 0.5
        serial = r.choice([0x0A0D, 0x0D0A0D0A, r.randint(1, 2**32 - 1)])
        kind = r.randrange(3)
        if kind == 0:
            sig, body = 's', ['line1\r\nline2\r\n']
        elif kind == 1:
            sig, body = 'ay', [list(b'\r\n' * r.randint(1, 4))]
        else:
            sig, body = 'qs', [0x0A0D, 'x' * r.choice([0, 5])]
        fields = {'path': '/a', 'member': 'M', 'interface': 'a.b'}
        raw = RM.build(4, serial, fields, sig, body, little)
        exp = {'type': 4, 'serial': serial, 'expectReply': True, 'autoStart': True, 'signature': sig}
        exp.update(fields)
        out.append((raw, exp, body))
    return out


def run_partition(ctx, mode, seq, cuts, with_handshake, case, stream=None, reentrant=False):
    """Feed handshake (+) stream cut at `cuts`; compare delivered with sent.  Returns True if equal."""
    ep = make(mode)
    hs = handshake_bytes(mode)
    body = stream if stream is not None else b''.join(raw for raw, _, _ in seq)
    if with_handshake:
        total = hs + body
    else:
        for piece in (SERVER_HS if mode == 'server' else CLIENT_HS):
            ep.feed(piece)
        total = body
    ctx.count('evaluations')
    pieces = simnet.chunks_of(total, cuts)
    if reentrant:
        ctx.count('reentrant_partitions')
        ep.proto.pending_pieces = list(pieces)
        while ep.proto.pending_pieces:
            if not ep.feed(ep.proto.pending_pieces.pop(0)):
                break
    else:
        for ch in pieces:
            if not ep.feed(ch):
                break
    got = ep.proto.got
    ok = (not ep.crashes and len(got) == len(seq) and ep.proto.auth_calls == 1 and not ep.t.disconnecting)
    raw_pieces_differ = None
    if ok:
        for i_, ((kind, m), (raw, exp, b)) in enumerate(zip(got, seq)):
            if kind != HANDLER_OF[exp['type']] or got_key(kind, m) != exp_key(exp, b):
                ok = False
                break
            # identical content includes the raw pieces the delivered message carries (the built-in bus passes rawBody on)
            pieces_ = [getattr(m, a_, None) for a_ in ('rawHeader', 'rawPadding', 'rawBody')]
            if None not in pieces_ and b''.join(pieces_) != raw:
                ok = False
                raw_pieces_differ = (i_, [len(p_) for p_ in pieces_], len(raw))
                break
    if ok:
        if len(pieces) >= 2 or len(seq) >= 2:
            ctx.distinct('nontrivial_cases', (case.get('kind'), case.get('idx'), mode, with_handshake,
                                              hash(tuple(cuts)) if not isinstance(cuts, str) else cuts))
        return True
    # describe the difference
    w = {'mode': mode, 'with_handshake': with_handshake, 'cuts': list(cuts)[:40], 'n_reads': len(pieces),
         'stream_len': len(total), 'sent': len(seq), 'delivered': len(got),
         'crash': repr(ep.crashes[0]) if ep.crashes else None, 'closed': ep.t.disconnecting,
         'auth_calls': ep.proto.auth_calls}
    if len(total) <= 600:
        w['stream'] = total
    diffs = []
    for i, ((kind, m), (raw, exp, b)) in enumerate(zip(got, seq)):
        d = compare_view(tx_view(m), exp, b)
        if kind != HANDLER_OF[exp['type']]:
            d.append(('handler', kind, HANDLER_OF[exp['type']]))
        if d:
            diffs.append((i, d[:3]))
    w['diffs'] = diffs[:5]
    if raw_pieces_differ:
        w['diffs'].append(('raw-pieces', 'message %d: rawHeader+rawPadding+rawBody have lengths %r, the message sent has %d '
                           'bytes' % raw_pieces_differ))
    key, what = classify(ep, w, seq, pieces, hs if with_handshake else b'')
    ctx.report(key, what, w, case)
    return False


def classify(ep, w, seq, pieces, hs):
    if ep.crashes:
        what = 'connection crashed with %r after %d of %d messages (%d reads, handshake coalesced=%s)' % (
            ep.crashes[0], w['delivered'], w['sent'], w['n_reads'], w['with_handshake'])
    elif w['delivered'] != w['sent']:
        what = '%d messages sent, %d delivered (%d reads, handshake coalesced=%s)' % (
            w['sent'], w['delivered'], w['n_reads'], w['with_handshake'])
    else:
        what = 'delivered messages differ from the sent ones: %s' % (w['diffs'][:2],)
    return None, what


def all_cuts(ctx, mode, seq, with_handshake, case_base, double_limit, rng):
    hs = handshake_bytes(mode) if with_handshake else b''
    n = len(hs) + sum(len(raw) for raw, _, _ in seq)
    bad = 0
    for c in range(1, n):
        if not run_partition(ctx, mode, seq, [c], with_handshake, dict(case_base, cuts=[c])):
            bad += 1
            if bad > 3:
                return
        ctx.count('single_cut_partitions')
    pairs = [(a, b) for a in range(1, n) for b in range(a + 1, n)]
    exhaustive = len(pairs) <= double_limit
    if not exhaustive:
        pairs = rng.sample(pairs, double_limit)
    for a, b in pairs:
        if not run_partition(ctx, mode, seq, [a, b], with_handshake, dict(case_base, cuts=[a, b])):
            bad += 1
            if bad > 6:
                return
        ctx.count('double_cut_partitions')
    return exhaustive


def largest_message(ctx):
    """The largest message the protocol allows - 2**27 bytes in all - and one 8 bytes shorter, each followed by a small
    message, in one read and cut inside the fixed header: delivered like any other."""
    from harness import ref_message as RM
    import hashlib
    small = RM.build(4, 91, {'path': '/a', 'member': 'After', 'interface': 'a.b'}, 's', ['after'], True)
    for total in (2 ** 27, 2 ** 27 - 8):
        probe = RM.build(4, 90, {'path': '/a', 'member': 'Big', 'interface': 'a.b'}, 's', [''], True)
        fill = total - len(probe)
        text = 'x' * fill
        raw = RM.build(4, 90, {'path': '/a', 'member': 'Big', 'interface': 'a.b'}, 's', [text], True)
        if len(raw) != total:
            ctx.require(False, 'could not build a message of exactly %d bytes (got %d)' % (total, len(raw)))
            return
        for cuts in ([], [9]):
            ep = make('client')
            for piece in CLIENT_HS:
                ep.feed(piece)
            stream = raw + small
            for ch in simnet.chunks_of(stream, cuts):
                if not ep.feed(ch):
                    break
            del stream
            got = ep.proto.got
            ctx.count('evaluations')
            ctx.count('largest_message_runs')
            case = {'kind': 'largest', 'total': total, 'cuts': cuts}
            w = {'total_bytes': total, 'cuts': cuts, 'delivered': [(k, getattr(m, 'member', None)) for k, m in got],
                 'closed': ep.t.disconnecting, 'crash': repr(ep.crashes[0]) if ep.crashes else None}
            ok = (len(got) == 2 and not ep.crashes and not ep.t.disconnecting and got[0][1].member == 'Big'
                  and got[1][1].member == 'After' and got[1][1].body == ['after']
                  and isinstance(got[0][1].body, list) and len(got[0][1].body) == 1 and len(got[0][1].body[0]) == fill
                  and got[0][1].body[0] == text)
            ep.proto.got = []
            if not ok:
                ctx.report('largest-message', 'a message of %s bytes (%s) followed by a small one: delivered %r, closed=%s, '
                           'crash=%s' % ('exactly 2**27' if total == 2 ** 27 else '2**27 - 8', 'one read' if not cuts else
                                         'cut inside the fixed header', w['delivered'], w['closed'], w['crash']), w, case)
                return
        del raw, text


def run(ctx):
    si, sn = ctx.shard or (0, 1)
    quick = ctx.tier == 'quick'
    rng = ctx.rng
    ctx.rule = ('message sequences (all 4 types, both byte orders, foreign-built) fed to recording BasicDBusProtocol '
                'subclasses (server and client flavour) after/with the real line-mode handshake: every single cut, every '
                '(or 2000 sampled) double cuts of short streams, 1-byte reads, 2000/5000 messages in one read, random '
                'geometric partitions, handshake-coalesced reads incl. CRLF-bearing message bytes. distinct_nontrivial = '
                'distinct (sequence, partition) pairs with >= 2 reads or >= 2 messages per read')
    nshort = (12 if quick else 120) // sn + 1
    ctx.budget(45 if quick else 500)
    all_pairs_exhaustive = True
    for i in range(nshort):
        idx = i * sn + si
        seq = make_sequence(ctx.seed, idx, rng.choice([1, 2, 2, 3]), small=True)
        n = sum(len(raw) for raw, _, _ in seq)
        for mode in (('server', 'client') if i % 2 == 0 else ('client', 'server'))[:1 if quick else 2]:
            for with_hs in (False, True):
                ex = all_cuts(ctx, mode, seq, with_hs, {'kind': 'short', 'idx': idx, 'mode': mode, 'hs': with_hs,
                                                        'nmsgs': len(seq)},
                              2000 if quick else 10**9, rng)
                all_pairs_exhaustive = all_pairs_exhaustive and bool(ex)
                ctx.distinct('nontrivial_cases', ('short', idx, mode, with_hs))
        ctx.count('short_sequences')
        ctx.counters['max_short_stream'] = max(ctx.counters.get('max_short_stream', 0), n)
        if ctx.stop_early() or ctx.out_of_time():
            break
    ctx.note('short_stream_partitions', {'single_cuts': 'all', 'double_cuts': 'all' if all_pairs_exhaustive else
                                         'all when <= 2000 pairs, else 2000 sampled'})
    ctx.exhaustive = all_pairs_exhaustive and not ctx.truncated

    # CRLF-bearing messages, handshake coalesced, every single cut + one read
    for i in range((6 if quick else 40) // sn + 1):
        idx = i * sn + si
        seq = crlf_sequence(ctx.seed, idx)
        for mode in ('server', 'client'):
            hs = handshake_bytes(mode)
            n = len(hs) + sum(len(r_) for r_, _, _ in seq)
            case = {'kind': 'crlf', 'idx': idx, 'mode': mode}
            run_partition(ctx, mode, seq, [], True, dict(case, cuts=[]))
            ctx.count('handshake_coalesced_crlf')
            for c in range(1, n):
                if not run_partition(ctx, mode, seq, [c], True, dict(case, cuts=[c])):
                    break
            run_partition(ctx, mode, seq, list(range(1, n)), True, dict(case, cuts='bytewise'))
            ctx.distinct('nontrivial_cases', ('crlf', idx, mode))

    # content includes the descriptors a message carries: descriptor-carrying first messages whose descriptors arrive
    # (as the transport delivers them: before the bytes of their read) in the read that also ends the handshake
    if si == 0:
        from checks.c20 import build_messages, run_schedule
        for i in range(40 if quick else 400):
            r = random.Random('%s/c04fd/%s' % (ctx.seed, i))
            msgs = build_messages(r, r.randint(1, 3))
            if not msgs[0]['nfd']:
                continue
            sched = []
            for mi, m in enumerate(msgs):
                for k in range(m['nfd']):
                    sched.append(('fd', mi, k))
                cut = r.randint(1, len(m['raw']) - 1) if r.random() < 0.5 else None
                if cut:
                    sched.append(('read', m['raw'][:cut], None))
                    sched.append(('read', m['raw'][cut:], None))
                else:
                    sched.append(('read', m['raw'], None))
            run_schedule(ctx, msgs, sched, 'server' if i % 2 else 'client', {'kind': 'fd-handshake', 'idx': i})
            ctx.count('descriptor_messages_at_handshake_end')
        # ... and what one connection is delivered does not depend on where the stream of ANOTHER connection of the
        # process was cut (two connections, both receiving descriptor-carrying messages, reads interleaved)
        from checks.c20 import two_receivers
        for i in range(150 if quick else 3000):
            two_receivers(ctx, ctx.seed, 100000 + i)

    # medium sequences: one byte per read, all in one read, random partitions
    nmed = (25 if quick else 300) // sn + 1
    ctx.budget(30 if quick else 300)
    for i in range(nmed):
        idx = i * sn + si
        seq = make_sequence(ctx.seed, 10000 + idx, rng.choice([3, 8, 20]))
        n = sum(len(raw) for raw, _, _ in seq)
        mode = 'server' if i % 2 else 'client'
        case = {'kind': 'medium', 'idx': 10000 + idx, 'mode': mode}
        if n < 6000:
            run_partition(ctx, mode, seq, list(range(1, n)), False, dict(case, cuts='bytewise', hs=False))
            ctx.count('bytewise_runs')
        run_partition(ctx, mode, seq, [], False, dict(case, cuts=[], hs=False))
        run_partition(ctx, mode, seq, [], True, dict(case, cuts=[], hs=True))
        # reads that arrive while the handler of an earlier message is still running (synchronous in-process peer)
        for j in range(4):
            cuts = simnet.random_partition(rng, n, rng.choice([16, 64, 200]))
            run_partition(ctx, mode, seq, cuts, False, dict(case, cuts=list(cuts), hs=False, reentrant=True),
                          reentrant=True)
        for j in range(6):
            mean = rng.choice([1.5, 4, 16, 64, 700])
            hs = rng.random() < 0.5
            total = n + (len(handshake_bytes(mode)) if hs else 0)
            cuts = simnet.random_partition(rng, total, mean)
            if rng.random() < 0.3:
                # concentrate cuts inside fixed headers / padding
                pos = len(handshake_bytes(mode)) if hs else 0
                cuts = []
                for raw, _, _ in seq:
                    cuts.extend(sorted(set(pos + rng.randint(1, min(16, len(raw) - 1)) for _ in range(2))))
                    pos += len(raw)
                cuts = sorted(set(c for c in cuts if 0 < c < total))
            run_partition(ctx, mode, seq, cuts, hs, dict(case, cuts=cuts, hs=hs))
            ctx.count('random_partitions')
            ctx.distinct('nontrivial_cases', ('medium', idx, tuple(cuts[:50])))
        ctx.counters['max_stream'] = max(ctx.counters.get('max_stream', 0), n)
        if ctx.stop_early() or ctx.out_of_time():
            break

    # extreme coalescing: thousands of messages in one read
    if si == 0:
        for K in (2000, 5000):
            seq = []
            base = make_sequence(ctx.seed, 777, 40, small=True)
            while len(seq) < K:
                seq.extend(base)
            seq = seq[:K]
            for mode, hs in (('server', False), ('client', True)):
                ok = run_partition(ctx, mode, seq, [], hs, {'kind': 'coalesced', 'K': K, 'mode': mode, 'hs': hs})
                ctx.count('coalesced_runs')
                ctx.counters['max_messages_in_one_read'] = max(ctx.counters.get('max_messages_in_one_read', 0),
                                                               K if ok else 0)
                ctx.distinct('nontrivial_cases', ('coalesced', K, mode, hs))
        # large single message (~100 KiB) cut randomly
        from harness import ref_message as RM
        big = RM.build(4, 77, {'path': '/a', 'member': 'M', 'interface': 'a.b'}, 'ay', [list(range(256)) * 400], False)
        exp = {'type': 4, 'serial': 77, 'expectReply': True, 'autoStart': True, 'signature': 'ay', 'path': '/a',
               'member': 'M', 'interface': 'a.b'}
        seq = [(big, exp, [list(range(256)) * 400])] * 2
        for j in range(4):
            cuts = simnet.random_partition(rng, 2 * len(big), rng.choice([100, 1460, 65536]))
            run_partition(ctx, 'server', seq, cuts, False, {'kind': 'big', 'cuts': cuts[:50]})
            ctx.count('large_message_runs')
        # more than 16 KiB of CRLF-free message bytes in the same read as the final handshake line
        # (one large message, and many pipelined small ones)
        blob = RM.build(4, 78, {'path': '/a', 'member': 'M', 'interface': 'a.b'}, 's', ['x' * 20000], True)
        bexp = {'type': 4, 'serial': 78, 'expectReply': True, 'autoStart': True, 'signature': 's', 'path': '/a',
                'member': 'M', 'interface': 'a.b'}
        small = RM.build(4, 79, {'path': '/a', 'member': 'M', 'interface': 'a.b'}, 's', ['y' * 40], False)
        sexp = dict(bexp, serial=79)
        for seq in ([(blob, bexp, ['x' * 20000])] * 2, [(small, sexp, ['y' * 40])] * 400,
                    [(small, sexp, ['y' * 40])] * 3 + [(blob, bexp, ['x' * 20000])]):
            total = sum(len(r_) for r_, _, _ in seq)
            for mode in ('server', 'client'):
                hs = len(handshake_bytes(mode))
                for cuts in ([], [hs + 16400], [hs - 2, hs + 17000], [hs + 5], [hs + total // 2]):
                    cuts = [c for c in cuts if 0 < c < hs + total]
                    run_partition(ctx, mode, seq, cuts, True, {'kind': 'big-hs', 'mode': mode, 'cuts': cuts})
                    ctx.count('handshake_coalesced_large')
    if si == 0:
        largest_message(ctx)
    s0 = make_sequence(ctx.seed, 0, 2, small=True)
    ctx.sample({'sequence_hex': [raw.hex() for raw, _, _ in s0], 'expected': [e for _, e, _ in s0],
                'partitions': 'every single cut, every pair of cuts'})
    ctx.require(ctx.counters.get('single_cut_partitions', 0) > 100, 'too few single-cut partitions')
    ctx.require(ctx.counters.get('coalesced_runs', 0) > 0 or sn > 1, 'extreme coalescing not exercised')


def replay(ctx, rp):
    case = rp['case']
    seed = rp.get('seed', 0)
    kind = case['kind']
    if kind == 'short':
        seq = make_sequence(seed, case['idx'], case['nmsgs'], small=True)
        run_partition(ctx, case['mode'], seq, case['cuts'], case['hs'], case)
    elif kind == 'crlf':
        seq = crlf_sequence(seed, case['idx'])
        n = len(handshake_bytes(case['mode'])) + sum(len(r_) for r_, _, _ in seq)
        cuts = list(range(1, n)) if case['cuts'] == 'bytewise' else case['cuts']
        run_partition(ctx, case['mode'], seq, cuts, True, case)
    elif kind == 'largest':
        largest_message(ctx)
    elif kind == 'two-receivers':
        from checks.c20 import two_receivers
        two_receivers(ctx, seed, case['idx'])
    else:
        ctx.inconclusive = 'replay of %s cases: re-run the check with the same seed' % kind
