"""
C17 — remote property access honours declared type and access mode.

Generated classes (signature x readable/writable x change-notification mode, the same
property name on several interfaces, base + derived classes) exported on a real connection;
histories of local assignment and remote Get / Set / GetAll with right and wrong names, in
every first-touch order.  Oracle: a dict model per object; variant types read from the wire.
"""
import random

from harness import clientfix, ref_codec as R, ref_message as RM
from harness.ref_codec import Variant
from txdbus import interface as I
from txdbus import objects as O

PROP = 'C17'
LEVEL = 'exploration'
SHARDS = {'thorough': 16}

PROPS_IFACE = 'org.freedesktop.DBus.Properties'
PNAMES = ['Alpha', 'Beta', 'Gamma', 'Delta']

# signature -> list of natural Python values (two or more distinct ones)
VALUES = {
    's': ['', 'x', 'héllo', 'it\'s', '\ufeffbom', ' padded '],
    'i': [0, -1, 2**31 - 1, -2**31],
    'u': [0, 7, 2**32 - 1],
    'y': [0, 255, 7],
    'b': [True, False, 1, 0],       # a flag computed as flags & 1 is a value of a boolean property too
    'd': [0.5, -2.0, 1e300],
    'x': [-2**63, 5, 2**40],
    't': [0, 2**64 - 1],
    'n': [-5, 2**15 - 1],
    'q': [0, 65535],
    'o': ['/', '/a/b'],
    'g': ['', 'a{sv}'],
    'as': [['a', 'b'], ['c']],
    'a{ss}': [{'k': 'v'}, {'a': 'b', 'c': 'd'}],
    '(is)': [(1, 'a'), (2, 'b')],
    'ai': [[1, 2, 3], [4]],
}
BASIC = set('siuybdxtnqog')


def foreign_wrapper(r, sig, v):
    """The same value as a typed wrapper of *another* DBus type (it still fits the declared one): the declared
    type, not the wrapper, decides what Get returns."""
    from txdbus import marshal as M
    if sig in 'iuxtnqy' and isinstance(v, int) and not isinstance(v, bool):
        cands = [c for c, (lo, hi) in {'y': (0, 255), 'n': (-2**15, 2**15 - 1), 'q': (0, 2**16 - 1), 'i': (-2**31, 2**31 - 1),
                                       'u': (0, 2**32 - 1), 'x': (-2**63, 2**63 - 1), 't': (0, 2**64 - 1)}.items()
                 if c != sig and lo <= v <= hi]
        if cands:
            c = r.choice(cands)
            return {'y': M.Byte, 'n': M.Int16, 'q': M.UInt16, 'i': M.Int32, 'u': M.UInt32, 'x': M.Int64, 't': M.UInt64}[c](v)
    return v


def norm(v):
    if isinstance(v, tuple):
        return [norm(x) for x in v]
    if isinstance(v, list):
        return [norm(x) for x in v]
    if isinstance(v, dict):
        return {k: norm(x) for k, x in v.items()}
    return v


def typed_for(sig, v):
    """Typed tree (for the reference encoder) of a natural Python value."""
    if sig == 'a{ss}':
        return list(v.items())
    if sig == '(is)':
        return list(v)
    return v


class Decl:
    def __init__(self, r, cid):
        self.cid = cid
        nif = r.choice([1, 2, 2, 3])
        self.ifaces = []           # (name, {pname: (sig, access, emits)}) in getInterfaces() order
        decl = []
        for k in range(nif):
            name = 'org.verif.c17.C%s.I%d' % (cid, k)
            props = {}
            for pn in r.sample(PNAMES, r.randint(1, 3)):
                sig = r.choice(list(VALUES))
                # 'none': declared neither readable nor writable (DBus has no such access mode; what a remote Get sees is
                # left open here, but it is certainly not writable)
                access = r.choice(['read', 'read', 'readwrite', 'readwrite', 'write', 'none'])
                emits = r.choice([True, True, False, 'invalidates'])
                props[pn] = (sig, access, emits)
            decl.append((name, props))
        self.twin = None
        if nif > 1 and r.random() < 0.25:
            # two interfaces whose (interface name + property name) concatenations coincide: org.x.I0 + 'X'+pn and
            # org.x.I0X + pn are different properties and must not share a value
            pn = sorted(decl[1][1])[0]
            decl[1] = (decl[0][0] + 'X', decl[1][1])
            decl[0][1]['X' + pn] = (r.choice(list(VALUES)), r.choice(['read', 'readwrite', 'readwrite', 'write']),
                                    r.choice([True, False, 'invalidates']))
            self.twin = (decl[0][0], 'X' + pn, decl[1][0], pn)
        two_levels = nif > 1 and r.random() < 0.6
        cut = r.randint(1, nif - 1) if two_levels else nif
        base_ifs, derived_ifs = decl[:cut], decl[cut:]
        # descriptors of a base-class interface may live on the derived class (all of them, some of them, or none
        # while the derived class binds only a method of that interface)
        self.split = None
        moved = set()
        touch_iface = None
        if r.random() < 0.45:
            n, props = r.choice(base_ifs)
            mode = r.choice(['some', 'all', 'method-only'])
            if mode == 'some' and len(props) > 1:
                moved = {(n, pn) for pn in r.sample(sorted(props), r.randint(1, len(props) - 1))}
            elif mode == 'all':
                moved = {(n, pn) for pn in props}
            else:
                mode = 'method-only'
                touch_iface = n
            self.split = (mode, n)
        counts = {}
        for _, props in decl:
            for pn in props:
                counts[pn] = counts.get(pn, 0) + 1
        self.collisions = {pn for pn, c in counts.items() if c > 1}
        self.attr = {}             # (iface, pname) -> attribute name
        self.mixins = 0
        self.store_members = 0
        self.alias = {}            # (iface, pname) -> second attribute name bound to the same property (derived class)

        def build(cname, base, ifs, hosted):
            # a user interface with members called like those of org.freedesktop.DBus.Properties (a keyed store), bound
            # under the conventional dbus_<member> names: calls naming the Properties interface are not theirs to answer
            store_iface = ifs[0][0] if (ifs and base is O.DBusObject and cid % 7 in (2, 5)) else None
            attrs = {'dbusInterfaces': [
                I.DBusInterface(n, *([I.Property(pn, sig, readable=acc not in ('write', 'none'), writeable=acc not in ('read', 'none'),
                                                 emitsOnChange=em) for pn, (sig, acc, em) in props.items()] +
                                     ([I.Method('Touch')] if n == touch_iface else []) +
                                     ([I.Method('Get', 'ss', 'v'), I.Method('Set', 'ssv', ''), I.Method('GetAll', 's', 'a{sv}')]
                                      if n == store_iface else [])),
                                noRegister=True) for n, props in ifs]}
            if store_iface:
                self.store_members += 1

                def dbus_Get(self_, a, b):
                    return 'from-the-store'

                def dbus_Set(self_, a, b, c):
                    return None

                def dbus_GetAll(self_, a):
                    return {'from-the-store': 1}
                attrs['dbus_Get'] = O.dbusMethod(store_iface, 'Get')(dbus_Get)
                attrs['dbus_Set'] = O.dbusMethod(store_iface, 'Set')(dbus_Set)
                attrs['dbus_GetAll'] = O.dbusMethod(store_iface, 'GetAll')(dbus_GetAll)
            for n, pn in hosted:
                an = 'p_%s_%s' % (n.rsplit('.', 1)[1], pn)
                explicit = pn in self.collisions or r.random() < 0.3
                attrs[an] = O.DBusProperty(pn, n) if explicit else O.DBusProperty(pn)
                self.attr[(n, pn)] = an
            if base is O.DBusObject and cid % 2:
                attrs['__len__'] = lambda self_: 0       # a falsy exported object
            if base is not O.DBusObject and all_base and cid % 2 == 0:
                # the derived class binds a property the base class already binds, under another attribute name: one DBus
                # property, two ways to reach it locally - they share the value
                n_, pn_ = all_base[cid % len(all_base)]
                attrs['alias_' + pn_] = O.DBusProperty(pn_, n_)
                self.alias[(n_, pn_)] = 'alias_' + pn_
            if touch_iface and base is not O.DBusObject:
                def touch(self_):
                    return None
                attrs['touch'] = O.dbusMethod(touch_iface, 'Touch')(touch)
            if cid % 5 == 3 and hosted:
                # the descriptors live in a plain helper class (not a DBusObject) that the exported class inherits from,
                # before or after the DBusObject base
                mix = {an_: attrs.pop(an_) for an_ in [self.attr[k_] for k_ in hosted]}
                Mixin = type(cname + 'Mixin', (object,), mix)
                self.mixins += 1
                return type(cname, (Mixin, base) if cid % 2 else (base, Mixin), attrs)
            return type(cname, (base,), attrs)

        all_base = [(n, pn) for n, props in base_ifs for pn in props]
        all_derived = [(n, pn) for n, props in derived_ifs for pn in props]
        Base = build('PBase%s' % cid, O.DBusObject, base_ifs, [k for k in all_base if k not in moved])
        if derived_ifs or self.split:
            cls = build('PDerived%s' % cid, Base, derived_ifs, all_derived + [k for k in all_base if k in moved])
        else:
            cls = Base
        self.cls = cls
        self.base_cls = Base
        self.base_keys = [k for k in all_base if k not in moved]
        self.ifaces = derived_ifs + base_ifs
        self.props = {(n, pn): spec for n, props in self.ifaces for pn, spec in props.items()}
        self.two_levels = bool(derived_ifs)


def run_case(ctx, seed, idx):
    r = random.Random('%s/c17/%s' % (seed, idx))
    case = {'kind': 'case', 'idx': idx}
    saved = dict(I.DBusInterface.knownInterfaces)
    try:
        d = Decl(r, idx)
        if d.mixins:
            ctx.count('classes_with_descriptors_in_a_plain_mixin', d.mixins)
        if d.store_members:
            ctx.count('classes_with_user_members_called_get_set_getall')
        model = {}          # (iface, pname) -> value
        keys = sorted(d.props)
        first_touch = list(keys)
        r.shuffle(first_touch)
        if d.base_cls is not d.cls and r.random() < 0.5:
            # an instance of the base class is in use first: whatever is remembered per class on first use must not leak
            # down the hierarchy
            try:
                b_ = d.base_cls('/only/base')
                list(b_.getInterfaces())
                for key in d.base_keys[:1]:
                    setattr(b_, d.attr[key], r.choice(VALUES[d.props[key][0]]))
                    getattr(b_, d.attr[key])
            except Exception as e:
                ctx.report('base-instance-raised', 'using an instance of the base class raised %r' % e, {}, case)
                return
            ctx.count('base_class_instance_used_first')
        early = []
        if r.random() < 0.3:
            # a subclass whose constructor assigns its properties BEFORE running the base-class constructor (the
            # descriptors create the store lazily for exactly that use; upstream's own tests read one that early)
            n_early = r.randint(1, len(first_touch))
            early = [(key, r.choice(VALUES[d.props[key][0]])) for key in first_touch[:n_early]]
            first_touch = first_touch[n_early:]

            def early_init(self_, path, _early=early, _attr=d.attr):
                # (upstream's own tests read a property "prior to object construction": it reads as None)
                unset = getattr(self_, _attr[_early[0][0]])
                if unset is not None:
                    raise AssertionError('a property never assigned reads %r before construction' % (unset,))
                for key_, v_ in _early:
                    setattr(self_, _attr[key_], v_)
                O.DBusObject.__init__(self_, path)
            d.cls = type('PEarly%s' % idx, (d.cls,), {'__init__': early_init})
        try:
            obj = d.cls('/p')
        except Exception as e:
            ctx.report('early-assignment-raised', 'constructing an object whose constructor assigns properties before the '
                       'base constructor raised %r' % e, {'early': [[list(k), repr(v)] for k, v in early]}, case)
            return
        for key, v in early:
            model[key] = v
            ctx.count('early_assignments')
        w = {'interfaces': [(n, {pn: list(spec) for pn, spec in props.items()}) for n, props in d.ifaces],
             'collisions': sorted(d.collisions), 'two_levels': d.two_levels, 'first_touch': first_touch, 'history': [],
             'assigned_before_base_constructor': [[list(k), repr(v)] for k, v in early]}
        ctx.distinct('first_touch_orders', (tuple(sorted(d.collisions)), tuple(first_touch[:2]), d.two_levels))
        # every property is assigned before export, in a random first-touch order
        for key in first_touch:
            sig = d.props[key][0]
            v = r.choice(VALUES[sig])
            ctx.count('evaluations')
            try:
                setattr(obj, d.attr[key], v)
            except Exception as e:
                w['history'].append(['assign-before-export', list(key), repr(v)])
                ctx.report(classify_assign(d, key, e), 'local assignment to property %s.%s raised %r (first touch order %s)' % (
                    key[0], key[1], e, [k[1] for k in first_touch]), w, case)
                return
            model[key] = v
            w['history'].append(['assign-before-export', list(key), repr(v)])
        w['split'] = d.split
        w['twin'] = d.twin
        for key in keys:
            try:
                back = getattr(obj, d.attr[key])
            except Exception as e:
                back = e
            if isinstance(back, Exception) or not R.plain_eq(norm(back), norm(model[key])):
                twin = d.twin and key in ((d.twin[0], d.twin[1]), (d.twin[2], d.twin[3]))
                ctx.report('store-key-collision' if twin else 'local-readback',
                           'after assigning every property once, %s.%s reads back %r, assigned %r%s' % (
                               key[0], key[1], back, model[key],
                               ' (it shares its store with %s.%s)' % ((d.twin[2:] if key == d.twin[:2] else d.twin[:2])
                                                                      if twin else ('', ''))), w, case)
                return
            ctx.count('first_readbacks_ok')
        peer = clientfix.Peer().ready()
        conn = peer.proto
        try:
            if idx % 4 == 3:
                # the object moves between connections of the process (reconnect): exported on an old connection first,
                # then on this one, then withdrawn from the old one - this connection serves it from then on
                old_peer = clientfix.Peer().ready()
                old_peer.proto.exportObject(obj)
                conn.exportObject(obj)
                old_peer.proto.unexportObject('/p')
                ctx.count('objects_moved_between_connections')
            else:
                conn.exportObject(obj)
        except Exception as e:
            ctx.report('export-raised', 'exportObject raised %r for an object whose properties were all assigned' % e, w, case)
            return
        peer.take()
        serial = [300]

        def call(member, sig, body):
            serial[0] += 1
            peer.send(RM.build(RM.METHOD_CALL, serial[0], {'path': '/p', 'member': member, 'interface': PROPS_IFACE,
                                                           'sender': ':1.8'}, sig, body))
            msgs = peer.take()
            reps = [m for m in msgs if m.fields.get('reply_serial') == serial[0]]
            sigs = [m for m in msgs if m.mtype == RM.SIGNAL]
            return reps, sigs

        def check_signals(sigs, key, value, assigned, what):
            """PropertiesChanged per declared mode."""
            mode = d.props[key][2]
            pcs = [m for m in sigs if m.fields.get('member') == 'PropertiesChanged']
            others = [m for m in sigs if m.fields.get('member') != 'PropertiesChanged']
            if others:
                ctx.report('stray-signal', '%s emitted unexpected signal %r' % (what, others[0].fields.get('member')), w, case)
                return False
            if not assigned:
                want = (0, 0)
            elif mode is True:
                want = (1, 1)
            elif mode is False:
                want = (0, 0)
            else:
                want = (0, 1)
            if not (want[0] <= len(pcs) <= want[1]):
                ctx.report('changed-signal-count', '%s of %s.%s (emits %r) emitted %d PropertiesChanged signals' % (
                    what, key[0], key[1], mode, len(pcs)), w, case)
                return False
            for m in pcs:
                ok = (m.fields.get('path') == '/p' and m.fields.get('interface') == PROPS_IFACE and len(m.body) == 3
                      and m.body[0] == key[0])
                if ok and mode is True:
                    ok = list(m.body[1]) == [key[1]] and R.plain_eq(m.body[1][key[1]], norm(value)) and m.body[2] == []
                if not ok:
                    ctx.report('changed-signal-content', 'PropertiesChanged for %s.%s=%r carries %r' % (
                        key[0], key[1], value, repr(m.body)[:200]), w, case)
                    return False
                ctx.count('changed_signals_ok')
            return True

        nops = r.choice([4, 8, 14])
        for step in range(nops):
            op = r.choice(['assign', 'get', 'get', 'set', 'set', 'getall', 'get-wrong', 'set-wrong', 'getall-wrong', 'get-noiface'])
            ctx.count('evaluations')
            ctx.count('op_' + op)
            key = r.choice(keys)
            sig, access, emits = d.props[key]
            if op == 'assign':
                v = r.choice(VALUES[sig])
                if r.random() < 0.3:
                    v = foreign_wrapper(r, sig, v)
                w['history'].append(['assign', list(key), repr(v)])
                via = d.alias[key] if key in d.alias and r.random() < 0.5 else d.attr[key]
                if via != d.attr[key]:
                    w['history'][-1].append('via ' + via)
                    ctx.count('assignments_via_second_binding')
                try:
                    setattr(obj, via, v)
                except Exception as e:
                    ctx.report(classify_assign(d, key, e), 'local assignment raised %r' % e, w, case)
                    return
                model[key] = v
                if key in d.alias and not (R.plain_eq(norm(getattr(obj, d.alias[key])), norm(v)) and
                                           R.plain_eq(norm(getattr(obj, d.attr[key])), norm(v))):
                    ctx.report('two-bindings-two-values', 'property %s.%s is bound under two attribute names; after assigning '
                               'through %s they read %r and %r' % (key[0], key[1], via, getattr(obj, d.attr[key]),
                                                                   getattr(obj, d.alias[key])), w, case)
                    return
                sigs = [m for m in peer.take() if m.mtype == RM.SIGNAL]
                if not check_signals(sigs, key, v, True, 'local assignment'):
                    return
                # local read-back
                if not R.plain_eq(norm(getattr(obj, d.attr[key])), norm(v)):
                    ctx.report('local-readback', 'attribute read-back differs from the assigned value', w, case)
                    return
            elif op in ('get', 'get-wrong', 'get-noiface'):
                iface, pn = key
                expect_err = False
                if op == 'get-wrong':
                    if r.random() < 0.5:
                        pn = r.choice(['Nope', pn + 'x', pn.lower()])
                    else:
                        other = [n for n, props in d.ifaces if pn not in props]
                        iface = r.choice(other) if other and r.random() < 0.6 else iface + 'x'
                    expect_err = True
                if op == 'get-noiface':
                    iface = ''
                w['history'].append([op, iface, pn])
                reps, sigs = call('Get', 'ss', [iface, pn])
                if len(reps) != 1:
                    ctx.report('reply-count', 'Get got %d replies' % len(reps), w, case)
                    return
                m = reps[0]
                if op == 'get-noiface':
                    cands = [k for k in keys if k[1] == pn]
                    readable = [k for k in cands if d.props[k][1] != 'write']
                    if m.mtype == RM.METHOD_RETURN:
                        var = m.body_typed[0]
                        if not any(R.plain_eq(R.to_plain('v', var), norm(model[k])) for k in readable):
                            ctx.report('get-empty-interface', "Get('', %s) returned %r, not the value of any readable "
                                       'property of that name' % (pn, var), w, case)
                            return
                    elif len(cands) == 1 and readable and d.props[cands[0]][1] != 'none':
                        ctx.report('get-empty-interface', "Get('', %s) failed although exactly one readable property has "
                                   'that name' % pn, w, case)
                        return
                    continue
                if access == 'none' and not expect_err:
                    continue
                if expect_err or access == 'write':
                    if m.mtype != RM.ERROR:
                        ctx.report('get-revealed' if access == 'write' and not expect_err else 'get-unknown-succeeded',
                                   'Get(%s, %s) succeeded (%s)' % (iface, pn, 'write-only property' if not expect_err else
                                                                   'unknown property or interface'), w, case)
                        return
                    ctx.count('get_errors_ok')
                    continue
                if m.mtype != RM.METHOD_RETURN or m.fields.get('signature') != 'v':
                    ctx.report('get-failed', 'Get(%s, %s) of a readable property failed: %r' % (iface, pn, m.body), w, case)
                    return
                var = m.body_typed[0]
                if not R.plain_eq(R.to_plain('v', var), norm(model[key])):
                    ctx.report('get-stale', 'Get(%s, %s) returned %r, last assigned %r' % (iface, pn, var, model[key]), w, case)
                    return
                if sig in BASIC and var.sig != sig:
                    ctx.report('get-variant-type', 'Get(%s, %s) returned a variant of type %r, declared %r' % (
                        iface, pn, var.sig, sig), w, case)
                    return
                ctx.count('gets_ok')
                ctx.distinct('nontrivial_cases', ('get', sig, access, emits, key[1] in d.collisions, d.two_levels))
            elif op in ('set', 'set-wrong'):
                iface, pn = key
                v = r.choice(VALUES[sig])
                wrong = op == 'set-wrong'
                if wrong:
                    if r.random() < 0.5:
                        pn = r.choice(['Nope', pn + 'x'])
                    else:
                        iface = iface + 'x'
                w['history'].append([op, iface, pn, repr(v)])
                reps, sigs = call('Set', 'ssv', [iface, pn, Variant(sig, typed_for(sig, v))])
                if len(reps) != 1:
                    ctx.report('reply-count', 'Set got %d replies' % len(reps), w, case)
                    return
                m = reps[0]
                should_fail = wrong or access in ('read', 'none')
                if should_fail:
                    if m.mtype != RM.ERROR:
                        ctx.report('set-not-refused', 'Set(%s, %s) succeeded on a %s' % (
                            iface, pn, 'read-only property' if not wrong else 'unknown property or interface'), w, case)
                        return
                    if not check_signals(sigs, key, v, False, 'refused Set'):
                        return
                    ctx.count('set_errors_ok')
                else:
                    if m.mtype != RM.METHOD_RETURN:
                        ctx.report('set-failed', 'Set(%s, %s) on a writable property failed: %r' % (iface, pn, m.body), w, case)
                        return
                    model[key] = v
                    if not check_signals(sigs, key, v, True, 'remote Set'):
                        return
                    ctx.count('sets_ok')
                # the value must (not) have changed: local read-back of every property of that name
                for k2 in keys:
                    if not R.plain_eq(norm(getattr(obj, d.attr[k2])), norm(model[k2])):
                        twin_ = d.twin and {key, k2} == {(d.twin[0], d.twin[1]), (d.twin[2], d.twin[3])}
                        ctx.report('store-key-collision' if twin_ else 'set-side-effect',
                                   'after Set(%s, %s) property %s.%s reads %r, expected %r' % (
                            iface, pn, k2[0], k2[1], getattr(obj, d.attr[k2]), model[k2]), w, case)
                        return
                ctx.distinct('nontrivial_cases', ('set', sig, access, emits, key[1] in d.collisions, d.two_levels))
            else:
                iface = key[0]
                unknown = op == 'getall-wrong'
                if unknown:
                    iface = iface + 'x'
                w['history'].append([op, iface])
                reps, sigs = call('GetAll', 's', [iface])
                if len(reps) != 1:
                    ctx.report('reply-count', 'GetAll got %d replies' % len(reps), w, case)
                    return
                m = reps[0]
                if unknown:
                    # error or an empty dictionary: the statement does not say which
                    if m.mtype == RM.METHOD_RETURN and m.body != [{}]:
                        ctx.report('getall-unknown', 'GetAll(unknown interface) returned %r' % (m.body,), w, case)
                        return
                    continue
                if m.mtype != RM.METHOD_RETURN or m.fields.get('signature') != 'a{sv}':
                    ctx.report('getall-failed', 'GetAll(%s) failed: %r' % (iface, m.body), w, case)
                    return
                want = {pn: norm(model[(n, pn)]) for (n, pn), spec in d.props.items() if n == iface and spec[1] != 'write'}
                undecided = {pn for (n, pn), spec in d.props.items() if n == iface and spec[1] == 'none'}
                got_ = {k_: v_ for k_, v_ in m.body[0].items() if k_ not in undecided}
                want = {k_: v_ for k_, v_ in want.items() if k_ not in undecided}
                if not R.plain_eq(got_, want):
                    split_ = d.split and d.split[1] == iface and set(m.body[0]) < set(want)
                    ctx.report('getall-split-hierarchy' if split_ else 'getall-content',
                               'GetAll(%s) returned %r, readable properties are %r%s' % (
                                   iface, m.body[0], want, ' (bindings of this interface are spread over base and derived '
                                   'class: %s)' % d.split[0] if split_ else ''), w, case)
                    return
                for pn, var in m.body_typed[0]:
                    s_ = d.props[(iface, pn)][0]
                    if s_ in BASIC and var.sig != s_:
                        ctx.report('get-variant-type', 'GetAll(%s) carries %s as variant %r, declared %r' % (
                            iface, pn, var.sig, s_), w, case)
                        return
                ctx.count('getalls_ok')
                # GetAll with an EMPTY interface name ("all interfaces"): every readable property whose name is declared on
                # one interface only appears with its current value (names shared by two interfaces are left out of the
                # comparison: the statement does not say which of the two an unqualified name means)
                if (idx + len(w['history'])) % 3 == 0:
                    w['history'].append(['getall-empty-interface'])
                    reps, sigs = call('GetAll', 's', [''])
                    if len(reps) == 1 and reps[0].mtype == RM.METHOD_RETURN and reps[0].fields.get('signature') == 'a{sv}':
                        seen_ = reps[0].body[0]
                        for (n_, pn_), spec_ in d.props.items():
                            if pn_ in d.collisions or spec_[1] in ('write', 'none'):
                                continue
                            if pn_ not in seen_ or not R.plain_eq(seen_[pn_], norm(model[(n_, pn_)])):
                                ctx.report('getall-empty-interface-stale', "GetAll('') reports %s as %r, its value is %r" % (
                                    pn_, seen_.get(pn_, '<absent>'), model[(n_, pn_)]), w, case)
                                return
                        ctx.count('getalls_with_empty_interface_ok')
                    else:
                        ctx.count('getalls_with_empty_interface_refused')      # refusing the empty name is not judged
            if peer.ep.crashes:
                ctx.report('crash', 'connection crashed with %r' % peer.ep.crashes[0], w, case)
                return
    finally:
        I.DBusInterface.knownInterfaces.clear()
        I.DBusInterface.knownInterfaces.update(saved)


def classify_assign(d, key, exc):
    return None


def run(ctx):
    si, sn = ctx.shard or (0, 1)
    quick = ctx.tier == 'quick'
    ctx.rule = ('generated classes: 1-3 interfaces on base/derived classes, 1-3 properties each from a 4-name pool (name '
                'collisions), %d signatures x {read, readwrite, write} x {emits true/false/invalidates}, explicit or '
                'inferred descriptor binding; every property assigned before export in a shuffled first-touch order; '
                'then histories of local assignment, Get/Set/GetAll with right and wrong names and Get with an empty '
                'interface. distinct_nontrivial = distinct (op, signature, access, emits, collision, inheritance)' % len(VALUES))
    n = (1500 if quick else 40000) // sn
    ctx.budget(45 if quick else 500)
    for i in range(n):
        run_case(ctx, ctx.seed, i * sn + si)
        ctx.count('classes')
        if ctx.stop_early() or (i % 32 == 0 and ctx.out_of_time()):
            break
    ctx.sample({'interfaces': [['org.verif.c17.C0.I1', {'Alpha': ['i', 'readwrite', True]}],
                               ['org.verif.c17.C0.I0', {'Alpha': ['s', 'read', False]}]],
                'history': [['assign', 'I0.Alpha', "'x'"], ['get', 'I1', 'Alpha'], ['set', 'I1', 'Alpha', '7']]})
    for k in ('gets_ok', 'sets_ok', 'getalls_ok', 'changed_signals_ok', 'get_errors_ok', 'set_errors_ok'):
        ctx.require(ctx.counters.get(k, 0) > 0 or ctx.known_hits, 'monitor never observed: ' + k)


def replay(ctx, rp):
    run_case(ctx, rp.get('seed', 0), rp['case']['idx'])
