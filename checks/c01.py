"""
C01 — encoding then decoding any conforming value returns the same value, and the
decoder consumes exactly the bytes the encoder produced.

Oracle: the statement's own normalisation (gen.normalise) + byte-count monitors on the
real marshal()/unmarshal() at every recursion level (hand-written observing wrappers,
because icontract skips recursive calls).
"""
import os

from harness import codec_cases as CC
from harness import gen, ref_grammar as G
from harness.ref_codec import plain_eq
from txdbus import marshal as M

PROP = 'C01'
LEVEL = 'exploration'
SHARDS = {'thorough': 16}

_mon = {'marshal_levels': 0, 'unmarshal_levels': 0, 'skipped': 0, 'bad': []}


def install_monitors():
    """Observe (never alter) every level of the recursive codec."""
    tbl = getattr(M, 'marshallers', None)
    if isinstance(tbl, dict):
        for code, f in list(tbl.items()):
            if getattr(f, '_verif_wrapped', False):
                continue

            def w(ct, var, start_byte, lendian, oobFDs, _f=f, _code=code):
                res = _f(ct, var, start_byte, lendian, oobFDs)
                try:
                    n, chunks = res
                    if isinstance(n, int) and isinstance(chunks, list) and all(
                            isinstance(c, (bytes, bytearray)) for c in chunks):
                        _mon['marshal_levels'] += 1
                        tot = sum(len(c) for c in chunks)
                        if tot != n and len(_mon['bad']) < 20:
                            _mon['bad'].append(('marshaller %r reported %d bytes but produced %d' % (_code, n, tot),
                                                ct, start_byte))
                    else:
                        _mon['skipped'] += 1
                except Exception:
                    _mon['skipped'] += 1
                return res
            w._verif_wrapped = True
            tbl[code] = w
    utbl = getattr(M, 'unmarshallers', None)
    if isinstance(utbl, dict):
        for code, f in list(utbl.items()):
            if getattr(f, '_verif_wrapped', False):
                continue

            def u(ct, data, offset, lendian, oobFDs, _f=f, _code=code):
                res = _f(ct, data, offset, lendian, oobFDs)
                try:
                    n = res[0]
                    if isinstance(n, int):
                        _mon['unmarshal_levels'] += 1
                        if (n < 0 or offset + n > len(data)) and len(_mon['bad']) < 20:
                            _mon['bad'].append(('unmarshaller %r consumed %d bytes at %d of %d' % (
                                _code, n, offset, len(data)), ct, offset))
                    else:
                        _mon['skipped'] += 1
                except Exception:
                    _mon['skipped'] += 1
                return res
            u._verif_wrapped = True
            utbl[code] = u


def round_trip(ctx, sig, tvals, little, off, rng, case):
    types = G.split_signature(sig)
    fds = []
    py = [gen.py_input(ct, tv, rng, fds, marshal_mod=M) for ct, tv in zip(types, tvals)]
    expect = [gen.normalise(ct, v) for ct, v in zip(types, py)]
    if rng.random() < 0.15 and py:
        py = tuple(py)
    ctx.count('evaluations')
    _mon['bad'] = []
    out_fds = []
    try:
        n, chunks = M.marshal(sig, py, off, little, out_fds)
    except Exception as e:
        ctx.report(None, 'marshal(%r) raised %r on conforming values' % (sig, e),
                   {'sig': sig, 'values': py, 'little': little, 'offset': off}, case)
        return
    data = b''.join(chunks)
    if n != len(data):
        ctx.report('encoder-count-mismatch', 'marshal(%r) reported %d bytes but produced %d' % (sig, n, len(data)),
                   {'sig': sig, 'values': py, 'little': little, 'offset': off, 'bytes': data}, case)
    if 'h' in sig and not (len(out_fds) == len(fds) and all(a is b for a, b in zip(out_fds, fds))):
        ctx.report('fd-order', 'descriptors collected out of argument order for %r' % sig,
                   {'sig': sig, 'fds': out_fds}, case)
    prefix = bytes((0xA5 ^ i) & 0xFF for i in range(off))
    trailer = bytes(rng.randrange(256) for _ in range(rng.choice([0, 0, 1, 7, 8])))
    buf = prefix + data + trailer
    try:
        n2, vals = M.unmarshal(sig, buf, off, little, out_fds)
    except Exception as e:
        ctx.report(None, 'unmarshal(%r) raised %r on marshal\'s own output' % (sig, e),
                   {'sig': sig, 'values': py, 'little': little, 'offset': off, 'bytes': data}, case)
        return
    if n2 != n:
        ctx.report('decoder-count-mismatch',
                   'unmarshal(%r) consumed %d bytes, marshal produced %d (offset %d, %s-endian)' % (
                       sig, n2, n, off, 'little' if little else 'big'),
                   {'sig': sig, 'values': py, 'little': little, 'offset': off, 'bytes': data}, case)
    if not plain_eq(vals, expect):
        ctx.report('round-trip-value', 'round trip of %r changed the value' % sig,
                   {'sig': sig, 'in': py, 'expected': expect, 'out': vals, 'little': little, 'offset': off,
                    'bytes': data}, case)
    for what, ct, pos in _mon['bad']:
        ctx.report('level-count', what + ' (type %r at offset %d inside %r)' % (ct, pos, sig),
                   {'sig': sig, 'values': py, 'little': little, 'offset': off}, case)
    nontrivial = any(c in sig for c in 'a({v') or len(types) > 1
    if nontrivial:
        ctx.distinct('nontrivial_cases', (gen.shape_of(sig), little, off % 8))
    ctx.distinct('shapes', gen.shape_of(sig))
    ctx.counters['max_nesting'] = max(ctx.counters.get('max_nesting', 0), gen.nesting(sig))
    for c in sig:
        if c not in ')}':
            ctx.distinct('type_codes', c)


def natural_round_trip(ctx, sig, py, little, off, case):
    ctx.count('evaluations')
    try:
        n, chunks = M.marshal(sig, py, off, little)
        data = b''.join(chunks)
        n2, vals = M.unmarshal(sig, bytes(off) + data, off, little)
    except Exception as e:
        ctx.report(None, 'round trip of natural values %r under %r raised %r' % (py, sig, e),
                   {'sig': sig, 'values': repr(py), 'little': little, 'offset': off}, case)
        return
    if n2 != n or n != len(data):
        ctx.report('decoder-count-mismatch', 'unmarshal(%r) consumed %d bytes, marshal reported %d and produced %d' % (
            sig, n2, n, len(data)), {'sig': sig, 'values': repr(py)}, case)
    if not plain_eq(vals, _plain(py)):
        ctx.report('round-trip-value', 'round trip of %r under %r gave %r' % (py, sig, vals),
                   {'sig': sig, 'in': repr(py), 'out': repr(vals), 'little': little, 'offset': off}, case)


INT_BOUNDS = [0, 1, -1, 127, 128, 255, 256, -129, 2**15 - 1, 2**15, -2**15, -2**15 - 1, 2**16 - 1, 2**16,
              2**31 - 2, 2**31 - 1, 2**31, 2**31 + 1, -2**31 + 1, -2**31, -2**31 - 1, -2**31 - 2, 2**32 - 1, 2**32, 2**32 + 1,
              2**63 - 2, 2**63 - 1, -2**63 + 1, -2**63]


def plain_integer_boundaries(ctx):
    shapes = [lambda n: n, lambda n: [n], lambda n: [n, n], lambda n: (n,), lambda n: ('t', n), lambda n: {'k': n},
              lambda n: {'k': [n]}, lambda n: [[n]], lambda n: ('s', [n], {'d': n})]
    for n in INT_BOUNDS:
        for mk in shapes:
            for sig, wrap in (('v', lambda c: [c]), ('a{sv}', lambda c: [{'Size': c}]), ('(vi)', lambda c: [(c, 5)]),
                              ('av', lambda c: [[c, 'x']])):
                for little in (True, False):
                    natural_round_trip(ctx, sig, wrap(mk(n)), little, 0 if little else 5,
                                       {'stream': 'int-bounds', 'value': n})
                    ctx.count('plain_integer_boundary_cases')


def largest_arrays(ctx):
    """Arrays whose element data is exactly the 64 MiB the protocol allows for one array, and a few bytes less: conforming
    values like any other (64 strings of about 1 MiB each)."""
    n = 2 ** 20 - 8
    for last_extra, little, off in ((3, True, 0), (0, False, 4), (3, False, 0), (-5, True, 4)):
        strs = ['%02d' % i + 'x' * (n - 2) for i in range(63)] + ['63' + 'y' * (n - 2 + last_extra)]
        data_len = 63 * 2 ** 20 + 4 + len(strs[-1]) + 1
        case = {'stream': 'largest-array', 'data_len': data_len}
        ctx.count('evaluations')
        ctx.count('largest_array_cases')
        w = {'array_data_bytes': data_len, 'limit': 2 ** 26, 'little': little, 'offset': off}
        if data_len > 2 ** 26:
            continue
        try:
            nb, chunks = M.marshal('as', [strs], off, little)
            data = b''.join(chunks)
            del chunks
            n2, vals = M.unmarshal('as', bytes(off) + data, off, little)
        except Exception as e:
            ctx.report('largest-array-refused', 'an array of %d bytes of element data (the limit is 2**26 = %d) does not round-trip: '
                       '%r' % (data_len, 2 ** 26, e), w, case)
            return
        if nb != len(data) or n2 != nb or vals != [strs]:
            ctx.report('round-trip-value', 'an array of %d bytes of element data came back changed (%d bytes written, %d reported, '
                       '%d consumed)' % (data_len, len(data), nb, n2), w, case)
            return
        del data, vals


def _plain(v):
    if isinstance(v, (list, tuple)):
        return [_plain(x) for x in v]
    if isinstance(v, dict):
        return {k: _plain(x) for k, x in v.items()}
    return v


REFUSED = [('as', [['ok', 'nul\0inside']]), ('a(s)', [[['x\0']]]), ('aai', [[[1, 2 ** 40]]]), ('(a{sv})', [[{'k': object()}]]),
           ('a(yo)', [[[1, 'not a path']]]), ('aas', [[['a'], 5]]), ('(i(i(is)))', [[1, [2, [3, 'x\0']]]]),
           ('a{s(ai)}', [{'k': [['notint']]}]), ('av', [[object()]]), ('a(ii)', [[[1]]])]


def refusals(ctx, rounds):
    """Values that do NOT conform (an embedded NUL, a number out of range, a wrong shape - all inside containers) are
    refused; what happens to them is not judged here, but a refusal must leave nothing behind that changes how conforming
    values are encoded afterwards."""
    n = 0
    for _ in range(rounds):
        for sig, vals in REFUSED:
            for little in (True, False):
                try:
                    M.marshal(sig, vals, 0, little)
                except Exception:
                    n += 1
    ctx.count('refused_encodes', n)


def run(ctx):
    install_monitors()
    refusals(ctx, 4)
    ctx.rule = ('bounded-exhaustive: every valid signature over alphabet %r up to length %d x 2 byte orders x offsets '
                '0..7 (longer ones with one order/offset each), boundary-biased values; random: grammar-derived '
                'signatures to the nesting limits with long strings/arrays, offsets to 64. distinct_nontrivial = '
                'distinct (alignment-shape of signature, byte order, offset mod 8) with a container or >1 value'
                % (CC.ENUM_ALPHABET, 4 if ctx.tier == 'quick' else 5))
    ctx.budget(40 if ctx.tier == 'quick' else 540)
    nenum = 0
    for idx, sig, combos in CC.enumerated(ctx.tier, ctx.shard):
        for little, off in combos:
            r = CC.case_rng(ctx.seed, 'enum', '%d/%s/%d' % (idx, little, off))
            g = gen.Gen(r, max_depth=2)
            tv = g.values(sig)
            round_trip(ctx, sig, tv, little, off, r,
                       {'stream': 'enum', 'sig': sig, 'idx': idx, 'little': little, 'off': off})
            nenum += 1
        if idx % 997 == 0:
            refusals(ctx, 1)
        if ctx.stop_early() or (nenum % 512 == 0 and ctx.out_of_time()):
            break
    ctx.count('enumerated_cases', nenum)
    ctx.exhaustive = not ctx.truncated
    si, sn = ctx.shard or (0, 1)
    nrand = 6000 if ctx.tier == 'quick' else 400000 // sn
    ctx.budget(25 if ctx.tier == 'quick' else 300)
    done = 0
    for i in range(nrand):
        idx = i * sn + si
        r, sig, tv, little, off = CC.random_case(ctx.seed, idx, big=True)
        round_trip(ctx, sig, tv, little, off, r, {'stream': 'rand', 'idx': idx})
        done += 1
        if i < 3:
            ctx.sample({'sig': sig, 'little': little, 'offset': off, 'values': repr(tv)[:300]})
        if ctx.stop_early() or (i % 256 == 0 and ctx.out_of_time()):
            break
    ctx.count('random_cases', done)
    # variants holding natural Python containers whose elements share a base type but not a class (int then bool, str
    # then ObjectPath, int then Byte ...): conforming values of 'v' / 'a{sv}' / '(vi)'; they must come back equal
    from checks.c19 import mixed_int_family, mixed_str_family
    for i in range(600 if ctx.tier == 'quick' else 20000 // sn):
        idx = i * sn + si
        r = CC.case_rng(ctx.seed, 'natural', str(idx))
        fam = mixed_int_family(r) if r.random() < 0.6 else mixed_str_family(r)
        fam.sort(key=lambda x: type(x).__mro__.__len__())        # plain base-class values first, subclasses last
        if r.random() < 0.3:
            r.shuffle(fam)
        content = fam if r.random() < 0.5 else {'k%d' % j: x for j, x in enumerate(fam)}
        sig, py = r.choice([('v', [content]), ('a{sv}', [{'a': content, 'b': 7}]), ('(vi)', [(content, 5)])])
        natural_round_trip(ctx, sig, py, r.random() < 0.5, r.choice([0, 1, 4, 7]), {'stream': 'natural', 'idx': idx})
    ctx.count('natural_variant_cases', i + 1)
    # plain (unwrapped) Python integers at every range boundary inside variants - alone, in lists, tuples and dictionaries:
    # all of them are conforming values of 'v' (INT32 when they fit, INT64 otherwise)
    if si == 0:
        plain_integer_boundaries(ctx)
        largest_arrays(ctx)
    ctx.note('level_monitor', {'marshal_levels_checked': _mon['marshal_levels'],
                               'unmarshal_levels_checked': _mon['unmarshal_levels'],
                               'skipped_unexpected_shape': _mon['skipped']})
    ctx.require(ctx.ndistinct('type_codes') >= 16, 'not all type codes reached: %r' % sorted(
        ctx.distinct_sets.get('type_codes', ())))
    ctx.require(ctx.counters.get('evaluations', 0) >= 1000, 'too few cases')


def replay(ctx, rp):
    install_monitors()
    case = rp['case']
    seed = rp.get('seed', 0)
    if case['stream'] == 'largest-array':
        largest_arrays(ctx)
    elif case['stream'] == 'int-bounds':
        plain_integer_boundaries(ctx)
    elif case['stream'] == 'enum':
        r = CC.case_rng(seed, 'enum', '%d/%s/%d' % (case['idx'], case['little'], case['off']))
        g = gen.Gen(r, max_depth=2)
        round_trip(ctx, case['sig'], g.values(case['sig']), case['little'], case['off'], r, case)
    else:
        r, sig, tv, little, off = CC.random_case(seed, case['idx'], big=True)
        round_trip(ctx, sig, tv, little, off, r, case)
