"""
C15 — introspection XML round-trips every interface definition.

Generated interface definitions go through generateIntrospectionXML and getInterfacesFromXML
(with the process-wide interface registry isolated per case); structural equality is the
oracle.  Both replaceKnownInterfaces modes are driven against a deliberately different
locally known definition.
"""
import random

from twisted.internet import defer
import xml.dom.minidom

from harness import gen, ref_grammar as G
from txdbus import interface as I
from txdbus import introspection as X
from txdbus import objects as O

PROP = 'C15'
LEVEL = 'exploration'
SHARDS = {'thorough': 8}

NAMES = ['Alpha', 'Beta', 'Gamma', 'Delta', 'Eps', 'Zeta', 'get_value', 'X1', '_u']
STANDARD = {'org.freedesktop.DBus.Introspectable', 'org.freedesktop.DBus.Peer', 'org.freedesktop.DBus.ObjectManager',
            'org.freedesktop.DBus.Properties'}


def gen_sig(r, g):
    k = r.random()
    if k < 0.15:
        return ''
    if k < 0.5:
        return g.signature(max_types=3)
    if k < 0.6:
        return g.deep_signature() if r.random() < 0.3 else g.single(depth=4)
    parts = [g.single(depth=r.choice([0, 1, 3])) for _ in range(r.randint(1, 6))]
    return ''.join(parts)[:250] if G.valid_signature(''.join(parts)[:250]) else ''.join(parts[:2])


def gen_interface(r, name):
    g = gen.Gen(r, max_depth=3)
    members = []
    desc = {'name': name, 'methods': {}, 'signals': {}, 'properties': {}}
    for n in r.sample(NAMES, r.randint(0, 6)):
        si, so = gen_sig(r, g), gen_sig(r, g)
        if not (G.valid_signature(si) and G.valid_signature(so)):
            continue
        members.append(I.Method(n, arguments=si, returns=so))
        desc['methods'][n] = (si, so, len(G.split_signature(si)), len(G.split_signature(so)))
    for n in r.sample(NAMES, r.randint(0, 6)):
        s = gen_sig(r, g)
        if not G.valid_signature(s):
            continue
        members.append(I.Signal(n, arguments=s))
        desc['signals'][n] = (s, len(G.split_signature(s)))
    for n in r.sample(NAMES, r.randint(0, 6)):
        s = g.single(depth=r.choice([0, 0, 1, 3]))
        readable, writeable = r.choice([(True, False), (True, True), (False, True), (False, False)])
        emits = r.choice([True, False, 'invalidates'])
        p = I.Property(n, s, readable=readable, writeable=writeable, emitsOnChange=emits)
        members.append(p)
        desc['properties'][n] = (s, 'write' if (writeable and not readable) else 'readwrite' if writeable else 'read')
    if r.random() < 0.35 and members:
        # built incrementally, with the XML requested in between (it is cached): later edits must show
        k = r.randint(0, len(members))
        iface = I.DBusInterface(name, *members[:k], noRegister=True)
        iface.introspectionXml
        for m in members[k:]:
            {I.Method: iface.addMethod, I.Signal: iface.addSignal, I.Property: iface.addProperty}[type(m)](m)
            if r.random() < 0.3:
                iface.introspectionXml
        # a member re-declared under its existing name with another definition
        g2 = gen.Gen(r, max_depth=2)
        if desc['methods'] and r.random() < 0.4:
            n = r.choice(sorted(desc['methods']))
            si, so = gen_sig(r, g2), gen_sig(r, g2)
            if G.valid_signature(si) and G.valid_signature(so):
                iface.introspectionXml
                iface.addMethod(I.Method(n, arguments=si, returns=so))
                desc['methods'][n] = (si, so, len(G.split_signature(si)), len(G.split_signature(so)))
        if desc['signals'] and r.random() < 0.4:
            n = r.choice(sorted(desc['signals']))
            sg = gen_sig(r, g2)
            if G.valid_signature(sg):
                iface.introspectionXml
                iface.addSignal(I.Signal(n, arguments=sg))
                desc['signals'][n] = (sg, len(G.split_signature(sg)))
        if desc['properties'] and r.random() < 0.4:
            n = r.choice(sorted(desc['properties']))
            iface.introspectionXml
            iface.addProperty(I.Property(n, 'as', readable=True, writeable=True))
            desc['properties'][n] = ('as', 'readwrite')
        # and a deletion
        for kind, dele in (('methods', iface.delMethod), ('signals', iface.delSignal), ('properties', iface.delProperty)):
            if desc[kind] and r.random() < 0.3:
                iface.introspectionXml
                victim = r.choice(sorted(desc[kind]))
                dele(victim)
                del desc[kind][victim]
    else:
        iface = I.DBusInterface(name, *members, noRegister=True)
    return iface, desc


def describe(iface):
    d = {'name': iface.name, 'methods': {}, 'signals': {}, 'properties': {}}
    for n, m in iface.methods.items():
        d['methods'][n] = (m.sigIn, m.sigOut, m.nargs, m.nret)
    for n, s in iface.signals.items():
        d['signals'][n] = (s.sig, s.nargs)
    for n, p in iface.properties.items():
        d['properties'][n] = (p.sig, p.access)
    return d


class Holder:
    """Minimal exported object: introspection only needs getInterfaces()."""

    def __init__(self, ifaces):
        self.ifaces = ifaces

    def getInterfaces(self):
        return list(self.ifaces)


class FalsyHolder(Holder):
    def __len__(self):
        return 0


def one_case(ctx, seed, idx):
    r = random.Random('%s/c15/%s' % (seed, idx))
    case = {'kind': 'case', 'idx': idx}
    saved = dict(I.DBusInterface.knownInterfaces)
    ctx.count('evaluations')
    try:
        nif = r.choice([1, 1, 2, 3])
        pairs = [gen_interface(r, 'org.verif.c15.C%d.I%d' % (idx, k)) for k in range(nif)]
        use_real = r.random() < 0.5
        if use_real:
            attrs_ = {'dbusInterfaces': [p[0] for p in pairs]}
            if idx % 4 == 1:
                attrs_['__len__'] = lambda self_: 0        # an exported object that is an empty container: falsy
            if nif >= 2 and idx % 2:
                # the interfaces are declared along a class hierarchy, and an instance of the BASE class is in use first
                base_cls = type('ObjBase%d' % idx, (O.DBusObject,), dict(attrs_, dbusInterfaces=[pairs[0][0]]))
                b_ = base_cls('/base')
                list(b_.getInterfaces())
                X.generateIntrospectionXML('/base', {'/base': b_})
                cls = type('Obj%d' % idx, (base_cls,), {'dbusInterfaces': [p[0] for p in pairs[1:]]})
                ctx.count('hierarchies_with_base_instance_first')
            else:
                cls = type('Obj%d' % idx, (O.DBusObject,), attrs_)
            obj = cls('/obj')
        else:
            obj = (FalsyHolder if idx % 4 == 2 else Holder)([p[0] for p in pairs])
        exports = {'/obj': obj}
        if r.random() < 0.3:
            exports['/obj/child'] = Holder([])
        xml_text = X.generateIntrospectionXML('/obj', exports)
        w = {'declared': [d for _, d in pairs], 'xml': xml_text[:3000]}
        # the XML must be well-formed for an independent parser too
        try:
            body = xml_text[xml_text.index('<node'):]
            xml.dom.minidom.parseString(body)
        except Exception as e:
            ctx.report('xml-not-well-formed', 'generated introspection XML is not well-formed: %s' % e, w, case)
            return
        replace = r.random() < 0.5
        ctx.count('replace_mode' if replace else 'reuse_mode')
        # an earlier attempt to define one of these interfaces locally that was REFUSED (an optional plug-in that failed
        # to load: a stray argument, a malformed signature) - the caller caught the exception and carried on.  No
        # definition came out of it, so nothing is "already known locally"
        r2 = random.Random('%s/c15/refused/%s' % (seed, idx))
        if r2.random() < 0.35:
            rname = r2.choice(pairs)[1]['name']
            known_before = I.DBusInterface.knownInterfaces.get(rname)
            for _ in range(r2.choice([1, 1, 2])):
                try:
                    if r2.random() < 0.6:
                        I.DBusInterface(rname, I.Method('OnlyInRefused', 'i', 's'), I.Signal('AlsoRefused', 'u'), object())
                    else:
                        I.DBusInterface(rname, I.Method('OnlyInRefused', 'i', 's'), I.Method('Malformed', 'a{', '('),
                                        I.Signal('Malformed2', '(ii'))
                    ctx.count('refused_definitions_accepted_after_all')
                except Exception:
                    ctx.count('refused_local_definitions')
                    if I.DBusInterface.knownInterfaces.get(rname) is not known_before:
                        ctx.report('refused-definition-registered',
                                   'a definition of %s that was refused with an exception is listed as known locally '
                                   'afterwards: %r' % (rname, describe(I.DBusInterface.knownInterfaces[rname])
                                                       if rname in I.DBusInterface.knownInterfaces else None),
                                   dict(w, refused=rname), case)
                        return
        # optionally a *different* locally known definition of the first interface
        decoy = None
        decoy_before = None
        if r.random() < 0.5:
            dname = r.choice(pairs)[1]['name']
            k_decoy = r.random()
            if k_decoy < 0.2:
                # a marker interface: known locally, with no members at all
                decoy = I.DBusInterface(dname)
                ctx.count('memberless_local_definitions')
            elif k_decoy < 0.6:
                decoy = I.DBusInterface(dname, I.Method('OnlyInDecoy', 'i', 's'))
            else:
                # a local definition sharing member names with the remote one, but with other signatures
                decoy = I.DBusInterface(dname, I.Method('Alpha', 'i', 's'), I.Signal('Beta', 'u'),
                                        I.Property('Gamma', 'i'), I.Method('OnlyInDecoy'))
            decoy_before = describe(decoy)
            decoy_name = decoy.name
            if r.random() < 0.4:
                # "declare once in a set-up function, refer to it by name later": nothing but the registry of known
                # interfaces refers to the local definition any more
                decoy = None
                import gc
                gc.collect()
                ctx.count('local_definitions_referenced_by_registry_only')
        if r.random() < 0.4:
            # an earlier reply that was cut short or garbled (a peer died mid-answer) must not influence this parse
            for _ in range(r.choice([1, 1, 2])):
                cut = r.randint(10, max(11, len(xml_text) - 1))
                bad = xml_text[:cut] if r.random() < 0.7 else xml_text[:cut] + '&<' + xml_text[cut:]
                before_known = dict(I.DBusInterface.knownInterfaces)
                try:
                    X.getInterfacesFromXML(bad, r.random() < 0.3)
                except Exception:
                    ctx.count('malformed_xml_rejected')
                else:
                    ctx.count('malformed_xml_accepted')
                # what a failed parse may have registered is not this case's subject: restore the registry
                I.DBusInterface.knownInterfaces.clear()
                I.DBusInterface.knownInterfaces.update(before_known)
        try:
            parsed = X.getInterfacesFromXML(xml_text, replace)
        except Exception as e:
            ctx.report('parse-raised', 'getInterfacesFromXML raised %r on generated XML' % e, w, case)
            return
        by_name = {}
        for i in parsed:
            by_name.setdefault(i.name, []).append(i)
        for iface, desc in pairs:
            got = by_name.get(desc['name'], [])
            if len(got) != 1:
                ctx.report('interface-count', 'interface %s appears %d times after the round trip' % (desc['name'], len(got)),
                           w, case)
                continue
            if decoy_before is not None and decoy is None and desc['name'] == decoy_name:
                if not replace:
                    ctx.count('known_reused')
                    if describe(got[0]) != decoy_before:
                        w['local_before'] = decoy_before
                        w['got'] = describe(got[0])
                        ctx.report('known-not-reused', 'a locally known interface (kept alive by the registry only) was not '
                                   'reused although replacement was not requested', w, case)
                    continue
                ctx.count('known_replaced')
                if 'OnlyInDecoy' in got[0].methods:
                    ctx.report('known-not-replaced', 'replaceKnownInterfaces=True but the locally known definition was kept',
                               w, case)
                    continue
                if I.DBusInterface.knownInterfaces.get(desc['name']) is not got[0]:
                    ctx.report('registry-not-updated', 'replaced interface is not the registered one', w, case)
            elif decoy is not None and desc['name'] == decoy.name:
                if not replace:
                    ctx.count('known_reused')
                    if got[0] is not decoy:
                        ctx.report('known-not-reused', 'a locally known interface was not reused although replacement was '
                                   'not requested', w, case)
                    elif describe(decoy) != decoy_before:
                        w['local_before'] = decoy_before
                        w['local_after'] = describe(decoy)
                        ctx.report('known-definition-altered', 'the locally known interface was reused but its definition was '
                                   'overwritten by the remote one', w, case)
                    continue
                ctx.count('known_replaced')
                if got[0] is decoy or 'OnlyInDecoy' in got[0].methods:
                    ctx.report('known-not-replaced', 'replaceKnownInterfaces=True but the locally known definition was kept',
                               w, case)
                    continue
                if I.DBusInterface.knownInterfaces.get(desc['name']) is not got[0]:
                    ctx.report('registry-not-updated', 'replaced interface is not the registered one', w, case)
            back = describe(got[0])
            if back != desc:
                diffs = []
                for kind in ('methods', 'signals', 'properties'):
                    for n in set(back[kind]) | set(desc[kind]):
                        if back[kind].get(n) != desc[kind].get(n):
                            diffs.append((kind, n, desc[kind].get(n), back[kind].get(n)))
                w['diffs'] = diffs[:6]
                ctx.report(classify(diffs), 'interface %s differs after the XML round trip: %s' % (desc['name'], diffs[:3]),
                           w, case)
                continue
            n_members = sum(len(desc[k]) for k in ('methods', 'signals', 'properties'))
            ctx.count('members', n_members)
            ctx.count('methods', len(desc['methods']))
            ctx.count('signals', len(desc['signals']))
            ctx.count('properties', len(desc['properties']))
            if n_members:
                ctx.distinct('nontrivial_cases', (idx, desc['name']))
            for kind in ('methods', 'signals'):
                for n, t in desc[kind].items():
                    ctx.distinct('signature_shapes', gen.shape_of(t[0]))
        if not proxy_acceptance(ctx, r, parsed, [d for _, d in pairs], w, case):
            return
        if nif >= 2 and idx % 3 == 0:
            r_ = random.Random('%s/c15gro/%s' % (seed, idx))
            through_get_remote_object(ctx, r_, xml_text, pairs, w, case)
            I.DBusInterface.knownInterfaces.clear()
            I.DBusInterface.knownInterfaces.update(saved)
            for i_ in parsed:
                I.DBusInterface.knownInterfaces.setdefault(i_.name, i_)
        if r.random() < 0.3:
            # the exporter changes a declared interface AFTER its XML was generated once (members re-declared under the
            # same name with other signatures, removed, added): the next XML describes the interface as it is now
            live = pairs[0][0]
            for _ in range(r.randint(1, 3)):
                kind = r.choice(['redeclare-method', 'redeclare-signal', 'redeclare-property', 'add', 'delete'])
                if kind == 'redeclare-method' and live.methods:
                    n_ = r.choice(sorted(live.methods))
                    live.addMethod(I.Method(n_, arguments=r.choice(['', 'i', 'sa{sv}', 'aai']), returns=r.choice(['', 's', 'ii'])))
                elif kind == 'redeclare-signal' and live.signals:
                    n_ = r.choice(sorted(live.signals))
                    live.addSignal(I.Signal(n_, r.choice(['', 'u', '(ss)x'])))
                elif kind == 'redeclare-property' and live.properties:
                    n_ = r.choice(sorted(live.properties))
                    live.addProperty(I.Property(n_, r.choice(['s', 'ai', 'a{sv}']), writeable=r.random() < 0.5))
                elif kind == 'add':
                    live.addMethod(I.Method('AddedLater%d' % r.randint(0, 3), arguments='s', returns='s'))
                elif kind == 'delete' and live.methods:
                    live.delMethod(r.choice(sorted(live.methods)))
            ctx.count('interfaces_changed_after_first_xml')
            xml2 = X.generateIntrospectionXML('/obj', exports)
            try:
                again = [i_ for i_ in X.getInterfacesFromXML(xml2, True) if i_.name == live.name]
            except Exception as e:
                ctx.report('parse-raised', 'getInterfacesFromXML raised %r on the XML of a changed interface' % e, w, case)
                return
            if len(again) != 1 or describe(again[0]) != describe(live):
                w['xml_after_change'] = xml2[:2000]
                w['declared_now'] = describe(live)
                w['parsed_now'] = describe(again[0]) if again else None
                ctx.report('stale-xml-after-redeclaration', 'after the exporter changed interface %s the introspection XML '
                           'still describes an earlier state' % live.name, w, case)
                return
        if use_real:
            missing = STANDARD - set(by_name)
            if missing:
                ctx.report('standard-interfaces', 'standard interfaces missing from the XML of an exported object: %s' % (
                    sorted(missing),), w, case)
    finally:
        I.DBusInterface.knownInterfaces.clear()
        I.DBusInterface.knownInterfaces.update(saved)


class _RecConn:
    def __init__(self):
        self.calls = []

    def callRemote(self, path, member, **kw):
        self.calls.append((path, member, kw))
        return defer.Deferred()


class _RecHandler:
    def __init__(self):
        self.conn = _RecConn()


def proxy_acceptance(ctx, r, parsed, declared, w, case):
    """A proxy over the parsed interfaces accepts exactly the declared calls: (method, interface given or not, number
    of arguments) is accepted iff an interface in question declares the method with that many arguments, and the call
    then goes out under THAT interface with its input signature."""
    order = list(parsed)
    if r.random() < 0.5:
        r.shuffle(order)
    subset = order if r.random() < 0.6 else order[:max(1, len(order) // 2)]
    h = _RecHandler()
    proxy = O.RemoteDBusObject(h, 'org.verif.P', '/obj', subset)
    decl = {i.name: {n: (m.sigIn, m.nargs) for n, m in i.methods.items()} for i in subset}
    # (each parsed interface was compared with the exporter's declaration above, or is the locally known definition
    # that the statement says is reused; either way the interface objects handed to the proxy are the reference here)
    names = [i.name for i in subset]
    methods = sorted({n for ms in decl.values() for n in ms}) + ['NotDeclaredAnywhere']
    if len(methods) > 7:
        methods = r.sample(methods, 7)
    for mname in methods:
        for given in [None] + names + ['org.verif.c15.NotAnInterface', None]:      # (unqualified again after qualified calls)
            cands = [n for n in names if (given is None or n == given) and mname in decl[n]]
            for delta in (0, 1, -1):
                if cands:
                    sig_in, nargs = decl[cands[0]][mname]
                else:
                    sig_in, nargs = '', 0
                n_given = nargs + delta
                if n_given < 0:
                    continue
                args = [0] * n_given
                before = len(h.conn.calls)
                kw = {'interface': given} if given else {}
                try:
                    proxy.callRemote(mname, *args, **kw)
                    outcome = 'accepted'
                except AttributeError:
                    outcome = 'AttributeError'
                except TypeError:
                    outcome = 'TypeError'
                except Exception as e:
                    outcome = repr(e)
                ctx.count('proxy_call_probes')
                want = 'AttributeError' if not cands else ('accepted' if delta == 0 else 'TypeError')
                pw = dict(w, proxy_interfaces=names, method=mname, interface_given=given, arguments=n_given,
                          declared_by=cands, outcome=outcome, expected=want)
                if outcome != want:
                    ctx.report('proxy-accepts-undeclared' if outcome == 'accepted' else 'proxy-refuses-declared',
                               'proxy over %r: callRemote(%r, %d args, interface=%r) -> %s, expected %s (declared by %r)' % (
                                   names, mname, n_given, given, outcome, want, cands), pw, case)
                    return False
                if outcome == 'accepted':
                    sent = h.conn.calls[before:]
                    if len(sent) != 1 or sent[0][1] != mname or sent[0][2].get('interface') != cands[0] or \
                            sent[0][2].get('signature') != sig_in:
                        pw['sent'] = repr(sent)[:300]
                        ctx.report('proxy-call-misdirected', 'accepted call %s went out as %r, expected interface %s signature '
                                   '%r' % (mname, sent, cands[0], sig_in), pw, case)
                        return False
                    ctx.count('proxy_calls_accepted')
                else:
                    if len(h.conn.calls) != before:
                        ctx.report('proxy-call-misdirected', 'refused call still reached the connection', pw, case)
                        return False
                    ctx.count('proxy_calls_refused')
    return True


def through_get_remote_object(ctx, r, xml_text, pairs, w, case):
    """The same XML reaching a real client connection as the reply to the Introspect call that getRemoteObject() makes
    when it is given interface names it does not know: the proxy it hands out describes every interface as the XML does,
    except that a definition known locally WHEN THE REPLY IS PARSED is reused unless replacement was requested."""
    from harness import clientfix, ref_message as RM_
    I.DBusInterface.knownInterfaces.clear()
    I.DBusInterface.knownInterfaces.update(_REGISTRY_AT_IMPORT)
    replace = r.random() < 0.5
    other_replaces_meanwhile = (not replace) and r.random() < 0.4
    name0 = pairs[0][1]['name']
    local = I.DBusInterface(name0, I.Method('Alpha', 'i', 's'), I.Method('OnlyInLocal', 'ii', ''), I.Signal('Beta', 'u'))
    local_desc = describe(local)
    asked = [local if r.random() < 0.5 else name0] + [d['name'] for _, d in pairs[1:]]
    if r.random() < 0.5:
        asked.reverse()
    peer = clientfix.Peer().ready()
    if r.random() < 0.5:
        # first a look-up that fails: the caller also asks for an interface the object does not have (probing for an
        # optional one).  That failure must not change what is known locally.
        probe = clientfix.Outcome(peer.proto.getRemoteObject('org.verif.P', '/obj', [name0, 'org.verif.c15.NotThere'],
                                                             replaceKnownInterfaces=False))
        for m in peer.take():
            if m.fields.get('member') == 'Introspect':
                peer.send(RM_.build(RM_.METHOD_RETURN, 8, {'reply_serial': m.serial}, 's', [xml_text]))
        ctx.count('failed_lookups_first')
        if probe.fired != 1 or probe.results[0][0] != 'err':
            ctx.report('proxy-for-missing-interface', 'getRemoteObject asking for an interface the object does not export '
                       'ended with %r' % ([(k, repr(v)[:120]) for k, v in probe.results],), w, case)
            peer.lose()
            return
        if I.DBusInterface.knownInterfaces.get(name0) is not local:
            ctx.report('known-interface-lost', 'after a failed look-up (an optional interface was missing) the locally known '
                       'definition of %s is %s' % (name0, 'gone' if name0 not in I.DBusInterface.knownInterfaces
                                                   else 'another object'), dict(w, local_definition=local_desc), case)
            peer.lose()
            return
        # (the failed look-up has parsed the XML and thereby learnt the object's other interfaces; forget those again so
        # that the look-up below still has something to discover)
        I.DBusInterface.knownInterfaces.clear()
        I.DBusInterface.knownInterfaces.update(_REGISTRY_AT_IMPORT)
        I.DBusInterface.knownInterfaces[name0] = local
    out = clientfix.Outcome(peer.proto.getRemoteObject('org.verif.P', '/obj', asked, replaceKnownInterfaces=replace))
    calls = [m for m in peer.take() if m.fields.get('member') == 'Introspect']
    pw = dict(w, asked=[a if isinstance(a, str) else '<instance of %s>' % a.name for a in asked], replace=replace,
              another_replacing_introspection_meanwhile=other_replaces_meanwhile, local_definition=local_desc)
    ctx.count('get_remote_object_probes')
    if len(calls) != 1 or out.fired:
        ctx.report('proxy-without-introspection', 'getRemoteObject with an unknown interface name made %d Introspect calls '
                   '(Deferred fired %d times before any reply)' % (len(calls), out.fired), pw, case)
        peer.lose()
        return
    if other_replaces_meanwhile:
        X.getInterfacesFromXML(xml_text, True)
    peer.send(RM_.build(RM_.METHOD_RETURN, 9, {'reply_serial': calls[0].serial}, 's', [xml_text]))
    try:
        if out.fired != 1 or out.results[0][0] != 'ok':
            ctx.report('proxy-unavailable', 'getRemoteObject over the generated XML ended with %r' % (
                [(k, repr(v)[:200]) for k, v in out.results],), pw, case)
            return
        proxy = out.results[0][1]
        have = {}
        for i_ in proxy.interfaces:
            have.setdefault(i_.name, []).append(describe(i_))
        for k, (_, desc) in enumerate(pairs):
            want = desc
            if k == 0 and not replace and not other_replaces_meanwhile:
                want = local_desc
            got = have.get(desc['name'], [])
            if len(got) != 1 or got[0] != want:
                pw['proxy_describes'] = got
                pw['expected'] = want
                ctx.report('proxy-stale-definition' if got and got[0] == local_desc else 'proxy-definition',
                           'proxy from getRemoteObject (replaceKnownInterfaces=%s) describes %s as %s' % (
                               replace, desc['name'], 'the local definition held when the call was issued'
                               if got and got[0] == local_desc else repr(got)[:120]), pw, case)
                return
        # acceptance, through the real proxy: calls of the expected definition of the first interface go out, the other
        # definition's do not
        want0 = local_desc if (not replace and not other_replaces_meanwhile) else pairs[0][1]
        other0 = pairs[0][1] if want0 is local_desc else local_desc
        for mname, t in [x for x in sorted(want0['methods'].items()) if set(x[1][0]) <= set('ynqiuxtdb')][:4]:
            peer.take()
            try:
                proxy.callRemote(mname, *([0] * t[2]), interface=name0)
            except Exception as e:
                if isinstance(e, (TypeError, AttributeError)):
                    pw['method'] = mname
                    ctx.report('proxy-refuses-declared', 'proxy from getRemoteObject refused %s.%s with %d arguments: %r' % (
                        name0, mname, t[2], e), pw, case)
                    return
                continue        # a value the signature cannot carry: not this probe's subject
            sent = [m for m in peer.take() if m.fields.get('member') == mname]
            if len(sent) != 1 or sent[0].fields.get('interface') != name0 or (sent[0].fields.get('signature') or '') != t[0]:
                ctx.report('proxy-call-misdirected', 'accepted call %s went out as %r' % (
                    mname, [(m.fields.get('interface'), m.fields.get('signature')) for m in sent]), pw, case)
                return
            ctx.count('get_remote_object_calls_accepted')
        for mname, t in sorted(other0['methods'].items()):
            if mname in want0['methods']:
                continue
            try:
                proxy.callRemote(mname, *([0] * t[2]), interface=name0)
            except AttributeError:
                ctx.count('get_remote_object_calls_refused')
                continue
            except Exception:
                continue
            pw['method'] = mname
            ctx.report('proxy-accepts-undeclared', 'proxy from getRemoteObject accepted %s.%s, which only the %s definition '
                       'has' % (name0, mname, 'local' if other0 is local_desc else 'remote'), pw, case)
            return
    finally:
        peer.lose()


_REGISTRY_AT_IMPORT = dict(I.DBusInterface.knownInterfaces)


def same_name_case(ctx, seed, idx):
    """A subclass re-declares an interface name of its base class: calls are served by the subclass' definition
    (first along the MRO), so that is the definition the XML must give to a peer."""
    r = random.Random('%s/c15same/%s' % (seed, idx))
    case = {'kind': 'same', 'idx': idx}
    saved = dict(I.DBusInterface.knownInterfaces)
    ctx.count('evaluations')
    try:
        name = 'org.verif.c15.S%d' % idx
        base_if, base_desc = gen_interface(r, name)
        der_if, der_desc = gen_interface(r, name)
        other_if, other_desc = gen_interface(r, name + '.Other')
        Base = type('SBase%d' % idx, (O.DBusObject,), {'dbusInterfaces': [base_if, other_if]})
        Der = type('SDer%d' % idx, (Base,), {'dbusInterfaces': [der_if]})
        obj = Der('/obj')
        xml_text = X.generateIntrospectionXML('/obj', {'/obj': obj})
        parsed = X.getInterfacesFromXML(xml_text, False)
        first = [i for i in parsed if i.name == name][:1]
        w = {'served_definition': der_desc, 'base_definition': base_desc, 'xml': xml_text[:2500]}
        if not first:
            ctx.report('interface-count', 'interface %s missing from the XML of an object exporting it' % name, w, case)
            return
        back = describe(first[0])
        if back != der_desc:
            w['parsed'] = back
            ctx.report('shadowed-interface', 'object re-declaring interface %s in a subclass: the XML describes another '
                       'definition than the one it serves' % name, w, case)
            return
        o2 = [i for i in parsed if i.name == name + '.Other'][:1]
        if not o2 or describe(o2[0]) != other_desc:
            ctx.report('interface-count', 'base-class interface lost or altered in the XML of a subclass instance', w, case)
            return
        ctx.count('same_name_hierarchies')
    finally:
        I.DBusInterface.knownInterfaces.clear()
        I.DBusInterface.knownInterfaces.update(saved)


def classify(diffs):
    return None


def run(ctx):
    si, sn = ctx.shard or (0, 1)
    quick = ctx.tier == 'quick'
    ctx.rule = ('random interface definitions (0-6 methods / signals / properties, signatures from the full grammar incl. '
                'nesting limits, all access and change-notification modes, 1-3 interfaces per object, real DBusObject or '
                'minimal holder) through generateIntrospectionXML -> getInterfacesFromXML with the interface registry '
                'restored per case; both replaceKnownInterfaces modes against a different locally known definition. '
                'distinct_nontrivial = distinct generated interfaces with >= 1 member that round-tripped')
    n = (3000 if quick else 60000) // sn
    ctx.budget(40 if quick else 400)
    for i in range(n):
        one_case(ctx, ctx.seed, i * sn + si)
        if i % 10 == 0:
            same_name_case(ctx, ctx.seed, i * sn + si)
        if ctx.stop_early() or (i % 64 == 0 and ctx.out_of_time()):
            break
    r = random.Random(5)
    iface, desc = gen_interface(r, 'org.verif.c15.Sample')
    ctx.sample({'declared': desc, 'xml': iface.introspectionXml[:600]})
    ctx.require(ctx.counters.get('members', 0) > 1000, 'too few members round-tripped')
    ctx.require(ctx.counters.get('known_reused', 0) > 5 and ctx.counters.get('known_replaced', 0) > 5,
                'known-interface reuse / replacement not exercised')


def replay(ctx, rp):
    (same_name_case if rp['case'].get('kind') == 'same' else one_case)(ctx, rp.get('seed', 0), rp['case']['idx'])
