"""
C03 — every constructible message serialises well-formed and parses back intact.

Oracles: harness.ref_message (strict parser + foreign builder), a serial-number monitor,
and size-limit probes around 2**27.
"""
import itertools
import random

from harness import gen, ref_codec as R, ref_grammar as G, ref_message as RM, selfcheck
from harness.ref_codec import Variant
from txdbus import marshal as M
from txdbus import message as MSG
from txdbus.error import MarshallingError

PROP = 'C03'
LEVEL = 'exploration'
SHARDS = {'thorough': 8}

from harness.msgview import FIELDS, tx_view, same_field, compare_view  # noqa: E402
_serials = set()
_serial_list = []

PATHS = ['/', '/a', '/org/verif/Obj_1', '/a/b/c']
IFACES = ['a.b', 'org.verif.Iface', 'A_1._b.C9', 'a.' + 'b' * 253]
MEMBERS = ['M', 'method_1', 'X' * 255, '_']
BUSNAMES = [':1.5', 'org.verif.Svc', 'a-b.c-d', ':9.9.9', 'a.b']
ERRNAMES = ['org.verif.Error.Failed', 'a.b']


def gen_body(r, allow_h, big=False):
    g = gen.Gen(r, max_depth=r.choice([1, 2, 3]), allow_h=allow_h, big=big)
    if r.random() < 0.25:
        return None, None, [], []
    sig = g.signature()
    if not sig:
        return r.choice([None, '']), r.choice([None, []]), [], []
    tv = g.values(sig)
    fds = []
    py = [gen.py_input(ct, v, r, fds, marshal_mod=M) for ct, v in zip(G.split_signature(sig), tv)]
    expect = [gen.normalise(ct, v) for ct, v in zip(G.split_signature(sig), py)]
    return sig, py, expect, fds


def built_case(seed, idx):
    """(ctor name, kwargs, expected view, expected body, fds) — every subset of optional fields is visited by
    idx, the rest is random."""
    r = random.Random('%s/c03built/%s' % (seed, idx))
    mtype = idx % 4 + 1
    sub = (idx // 4) % 8
    has_dest, has_opt2, has_body = bool(sub & 1), bool(sub & 2), bool(sub & 4)
    exp = {}
    dest = r.choice(BUSNAMES) if has_dest else None
    exp['destination'] = dest
    sig = py = None
    expect = []
    fds = []
    if has_body:
        sig, py, expect, fds = gen_body(r, allow_h=(mtype == 1))
    exp['signature'] = sig
    exp['type'] = mtype
    exp['expectReply'] = True
    exp['autoStart'] = True
    if mtype == 1:
        iface = r.choice(IFACES) if has_opt2 else None
        er, au = r.random() < 0.5, r.random() < 0.5
        path, member = r.choice(PATHS), r.choice(MEMBERS)
        kw = dict(path=path, member=member, interface=iface, destination=dest, signature=sig, body=py,
                  expectReply=er, autoStart=au, oobFDs=[] if (fds or r.random() < 0.5) else None)
        exp.update(path=path, member=member, interface=iface, expectReply=er, autoStart=au)
        if fds:
            exp['unix_fds'] = len(fds)
        return 'MethodCallMessage', kw, exp, expect, fds
    if mtype == 2:
        rs = r.choice([1, 2**31 - 1, 2**31, 2**32 - 1, r.randint(1, 2**32 - 1)])
        kw = dict(reply_serial=rs, body=py, destination=dest, signature=sig)
        exp.update(reply_serial=rs)
        return 'MethodReturnMessage', kw, exp, expect, fds
    if mtype == 3:
        rs = r.choice([1, 2**31, 2**32 - 1, r.randint(1, 2**32 - 1)])
        en = r.choice(ERRNAMES)
        snd = r.choice(BUSNAMES) if has_opt2 else None
        kw = dict(error_name=en, reply_serial=rs, destination=dest, signature=sig, body=py, sender=snd)
        exp.update(error_name=en, reply_serial=rs, sender=snd)
        return 'ErrorMessage', kw, exp, expect, fds
    path, member, iface = r.choice(PATHS), r.choice(MEMBERS), r.choice(IFACES)
    kw = dict(path=path, member=member, interface=iface, destination=dest, signature=sig, body=py)
    exp.update(path=path, member=member, interface=iface)
    return 'SignalMessage', kw, exp, expect, fds


def check_built(ctx, seed, idx):
    name, kw, exp, body_expect, fds = built_case(seed, idx)
    case = {'kind': 'built', 'idx': idx}
    ctx.count('evaluations')
    ctx.count('built_' + name)
    w = {'ctor': name, 'kwargs': {k: (repr(v)[:200]) for k, v in kw.items()}}
    try:
        m = getattr(MSG, name)(**kw)
    except Exception as e:
        ctx.report(None, '%s(...) raised %r for valid arguments' % (name, e), w, case)
        return
    raw = m.rawMessage
    w['raw'] = raw
    # 1. well-formedness, judged by the independent strict parser
    try:
        p = RM.parse(raw, strict=True)
    except R.CodecError as e:
        ctx.report('malformed-output', '%s serialises to a malformed message: %s' % (name, e), w, case)
        return
    if getattr(m, 'rawHeader', b'') + getattr(m, 'rawPadding', b'') + getattr(m, 'rawBody', b'') != raw \
            and hasattr(m, 'rawHeader') and hasattr(m, 'rawBody') and hasattr(m, 'rawPadding'):
        ctx.report('raw-parts', 'rawHeader+padding+rawBody != rawMessage', w, case)
    flags = (0 if exp['expectReply'] else 1) | (0 if exp['autoStart'] else 2)
    problems = []
    if not p.little:
        problems.append('constructed message is not little-endian although endian attribute says so')
    if p.mtype != exp['type']:
        problems.append('type %r' % p.mtype)
    if p.flags != flags:
        problems.append('flags byte %r, expected %r' % (p.flags, flags))
    if p.serial != m.serial:
        problems.append('wire serial %r != attribute %r' % (p.serial, m.serial))
    for f in FIELDS:
        want = exp.get(f)
        got = p.fields.get(f)
        if f == 'signature':
            if (got or '') != (want or ''):
                problems.append('signature field %r, expected %r' % (got, want))
        elif got != want:
            problems.append('header field %s on the wire is %r, expected %r' % (f, got, want))
    if p.unknown:
        problems.append('unknown header fields %r' % (p.unknown,))
    wire_body = gen.fd_to_index(body_expect)
    if not R.plain_eq(p.body, wire_body):
        problems.append('wire body %r != %r' % (repr(p.body)[:200], repr(wire_body)[:200]))
    if problems:
        w['problems'] = problems
        ctx.report('wire-content', '%s: %s' % (name, '; '.join(problems)[:300]), w, case)
    # 2. serial monitor
    s = m.serial
    if not isinstance(s, int) or s == 0 or s >= 2**32 or s in _serials:
        ctx.report('serial-not-fresh', 'serial %r is zero, out of range or already used' % (s,), w, case)
    _serials.add(s)
    # 3. parse back with txdbus
    try:
        back = MSG.parseMessage(raw, list(fds))
    except Exception as e:
        ctx.report(None, 'parseMessage raised %r on txdbus\'s own %s' % (e, name), w, case)
        return
    exp2 = dict(exp, serial=m.serial)
    diffs = compare_view(tx_view(back), exp2, body_expect)
    if type(back).__name__ != name:
        diffs.append(('class', type(back).__name__, name))
    if diffs:
        w['diffs'] = diffs
        ctx.report(classify_diffs(diffs), 'parseMessage(%s.rawMessage) differs from what was built: %s' % (
            name, diffs[:4]), w, case)
    sub = (idx // 4) % 8
    ctx.distinct('nontrivial_cases', ('built', name, sub, exp['expectReply'], exp['autoStart'],
                                      gen.shape_of(exp.get('signature') or '')))
    ctx.distinct('field_subsets', (name, sub))


def classify_diffs(diffs):
    return None


# ------------------------------------------------------------------ foreign messages

def foreign_case(seed, idx, allow_h=True, stream='c03foreign', max_depth=None):
    r = random.Random('%s/%s/%s' % (seed, stream, idx))
    mtype = idx % 4 + 1
    little = (idx // 4) % 2 == 0
    g = gen.Gen(r, max_depth=max_depth or r.choice([1, 2, 3]), free_variants=True, allow_h=allow_h)
    fields = {}
    if mtype in (1, 4):
        fields['path'] = r.choice(PATHS)
        fields['member'] = r.choice(MEMBERS)
        if mtype == 4 or r.random() < 0.6:
            fields['interface'] = r.choice(IFACES)
    if mtype in (2, 3):
        fields['reply_serial'] = r.choice([1, 2**31, 2**32 - 1, r.randint(1, 2**32 - 1)])
    if mtype == 3:
        fields['error_name'] = r.choice(ERRNAMES)
    if r.random() < 0.5:
        fields['destination'] = r.choice(BUSNAMES)
    if r.random() < 0.5:
        fields['sender'] = r.choice(BUSNAMES)
    sig = g.signature() if r.random() < 0.75 else ''
    tv = g.values(sig) if sig else []
    if sig:
        # descriptor indices (also inside variants) must address the out-of-band list
        tv = _renumber_fds(sig, tv)
        nfds = _count_fds(sig, tv)
        if nfds:
            fields['unix_fds'] = nfds
    flags = r.choice([0, 0, 1, 2, 3])
    if r.random() < 0.1:
        flags |= r.choice([4, 8, 0x80])       # flag bits a receiver must ignore
    serial = r.choice([1, 2**31, 2**32 - 1, r.randint(1, 2**32 - 1)])
    extra = []
    if r.random() < 0.3:
        for _ in range(r.randint(1, 2)):
            vs = g.single(depth=1, inferable=True)
            extra.append((r.randint(10, 255), Variant(vs, g.value(vs))))
    order = None
    if r.random() < 0.6:
        rr = random.Random(r.random())
        order = lambda fl: rr.sample(fl, len(fl))
    raw = RM.build(mtype, serial, fields, sig, tv, little, flags, extra_fields=extra, field_order=order)
    exp = {'type': mtype, 'serial': serial, 'expectReply': not (flags & 1), 'autoStart': not (flags & 2)}
    exp.update(fields)
    exp['signature'] = sig
    body = R.plain_list(sig, tv) if sig else []
    return raw, exp, body, {'little': little, 'flags': flags, 'unknown_codes': [c for c, _ in extra],
                            'shuffled': order is not None}


def _renumber_fds(sig, tv):
    counter = [0]

    def walk(ct, v):
        c = ct[0]
        if c == 'h':
            counter[0] += 1
            return counter[0] - 1
        if c == 'a':
            et = ct[1:]
            if et[0] == '{':
                kt, vt = G.struct_fields(et)
                return [(k, walk(vt, x)) for k, x in v]
            return [walk(et, x) for x in v]
        if c == '(':
            return [walk(ft, fv) for ft, fv in zip(G.struct_fields(ct), v)]
        if c == 'v':
            return Variant(v.sig, walk(v.sig, v.value))
        return v
    return [walk(ct, v) for ct, v in zip(G.split_signature(sig), tv)]


def _count_fds(sig, tv):
    n = [0]

    def walk(ct, v):
        c = ct[0]
        if c == 'h':
            n[0] += 1
        elif c == 'a':
            et = ct[1:]
            if et[0] == '{':
                kt, vt = G.struct_fields(et)
                for k, x in v:
                    walk(vt, x)
            else:
                for x in v:
                    walk(et, x)
        elif c == '(':
            for ft, fv in zip(G.struct_fields(ct), v):
                walk(ft, fv)
        elif c == 'v':
            walk(v.sig, v.value)
    for ct, v in zip(G.split_signature(sig), tv):
        walk(ct, v)
    return n[0]


def check_foreign(ctx, seed, idx):
    raw, exp, body, info = foreign_case(seed, idx)
    case = {'kind': 'foreign', 'idx': idx}
    ctx.count('evaluations')
    ctx.count('foreign')
    ctx.count('foreign_little' if info['little'] else 'foreign_big')
    if info['unknown_codes']:
        ctx.count('foreign_with_unknown_fields')
    if info['shuffled']:
        ctx.count('foreign_shuffled')
    w = {'raw': raw, 'expected': exp, 'info': info}
    try:
        RM.parse(raw, strict=True)
    except R.CodecError as e:
        from harness.env import Inconclusive
        raise Inconclusive('reference builder produced a message its own parser rejects: %s' % e)
    nfd = exp.get('unix_fds', 0)
    try:
        m = MSG.parseMessage(raw, list(range(nfd)))
    except Exception as e:
        ctx.report(None, 'parseMessage raised %r on a conformant %s-endian message' % (
            e, 'little' if info['little'] else 'big'), w, case)
        return
    diffs = compare_view(tx_view(m), exp, body)
    if diffs:
        w['diffs'] = diffs
        ctx.report(classify_diffs(diffs), 'conformant foreign message parsed differently: %s' % (diffs[:4],), w, case)
    if not diffs and not nfd:
        # (messages carrying descriptors are left out: the built-in bus does not pass descriptors on at all, and the
        # statement speaks of messages that are constructed, not of this internal path; see DESIGN.md 7.1)
        # a received message is passed on by serialising the parsed object again around its body as received (this is
        # what the built-in bus does with every message): that serialisation must be well-formed as well and carry the
        # same type, serial, flags, known header fields and body
        p0 = RM.parse(raw, strict=True)
        try:
            m._marshal(False, rawBody=m.rawBody)
            p1 = RM.parse(m.rawMessage, strict=True)
        except R.CodecError as e:
            w['reserialised'] = m.rawMessage
            ctx.report('reserialised-malformed', 'a parsed %s serialised again (as the bus passes it on) is not well-formed: '
                       '%s' % (RM.TYPE_NAMES.get(exp['type'], exp['type']), e), w, case)
            return
        except Exception as e:
            ctx.report('reserialise-raised', 'serialising a parsed message again raised %r' % e, w, case)
            return
        ctx.count('reserialised')
        same = (p1.mtype == p0.mtype and p1.serial == p0.serial and (p1.flags & 3) == (p0.flags & 3) and p1.fields == p0.fields and
                R.plain_eq(p1.body, p0.body) and m.rawMessage[0:1] == raw[0:1])
        if not same:
            w['reserialised'] = m.rawMessage
            ctx.report('reserialised-differs', 'a parsed message serialised again differs: %r became %r' % (p0, p1), w, case)
            return
    ctx.distinct('nontrivial_cases', ('foreign', exp['type'], info['little'], info['flags'],
                                      tuple(sorted(k for k in exp if k in FIELDS and exp[k] is not None)),
                                      bool(info['unknown_codes'])))


# ------------------------------------------------------------------ size limit

def failed_reserialisation(ctx):
    """A received message whose names are invalid parses (the parser does not validate names) but cannot be serialised
    again - the bus meets this whenever a peer sends such a message through it.  The refusal must leave the process'
    own serial numbering alone: messages constructed afterwards still get fresh serials."""
    for foreign_serial in (2, 7, 1, 2 ** 32 - 1, 3):
        for field, bad in (('path', '/org/a~c'), ('interface', 'no dots'), ('member', 'a.b'), ('destination', '..')):
            fields = {'path': '/a', 'member': 'M', 'interface': 'a.b', 'destination': 'a.b'}
            fields[field] = bad
            raw = RM.build(RM.METHOD_CALL, foreign_serial, fields, 's', ['x'], foreign_serial % 2 == 0)
            ctx.count('evaluations')
            try:
                m = MSG.parseMessage(raw, [])
            except Exception:
                ctx.count('invalid_names_refused_by_parser')
                continue
            try:
                m._marshal(False, rawBody=m.rawBody)
                ctx.count('invalid_names_reserialised')
            except Exception:
                ctx.count('reserialisations_refused')
            for _ in range(3):
                fresh = MSG.SignalMessage('/a', 'M', 'a.b').serial
                if fresh in _serials or not isinstance(fresh, int) or fresh == 0 or fresh >= 2 ** 32:
                    ctx.report('serial-not-fresh', 'after a received message (serial %d, invalid %s) could not be serialised '
                               'again, a newly constructed message was given serial %r, which %s' % (
                                   foreign_serial, field, fresh, 'was handed out before' if fresh in _serials else 'is invalid'),
                               {'foreign_serial': foreign_serial, 'field': field, 'value': bad, 'serial': fresh},
                               {'kind': 'failed-reserialisation'})
                    return
                _serials.add(fresh)


def size_probes(ctx):
    base = MSG.MethodReturnMessage(1, body=[''], signature='s')
    overhead = len(base.rawMessage)
    limit = 2**27
    for delta in (-1, 0, 1, 8):
        n = limit + delta - overhead
        ctx.count('evaluations')
        ctx.count('size_probes')
        case = {'kind': 'size', 'delta': delta}
        s = 'x' * n
        try:
            m = MSG.MethodReturnMessage(1, body=[s], signature='s')
            total = len(m.rawMessage)
            built = True
            del m
        except MarshallingError:
            built = False
        except MemoryError:
            from harness.env import Inconclusive
            raise Inconclusive('not enough memory for the 128 MiB size probe')
        except Exception as e:
            built = False
            if delta > 0:
                ctx.note('oversize_exception', repr(e)[:100])
            else:
                ctx.report(None, 'message of %d bytes (limit%+d) raised %r' % (limit + delta, delta, e), case, case)
        del s
        if built and total != limit + delta:
            from harness.env import Inconclusive
            raise Inconclusive('size probe arithmetic wrong: %d != %d' % (total, limit + delta))
        if delta < 0 and not built:
            ctx.report('legal-size-refused', 'a message of 2**27%+d bytes could not be constructed' % delta, case, case)
        if delta > 0 and built:
            ctx.report('oversize-constructed', 'a message of 2**27%+d bytes was constructed' % delta, case, case)
        if delta == 0:
            ctx.note('exactly_2p27_constructs', built)


def name_probes(ctx):
    """A sample of the constructor-validation matrix (the full one is C18's)."""
    bad = {'path': ['', 'a', '/a/', '//', '/a-b', '/org/freedesktop/DBus/Local'], 'member': ['', '1a', 'a.b', 'a-b', 'M' * 256],
           'interface': ['', 'a', 'a.', '.a', 'a..b', 'a.1', 'a b.c', 'a.' + 'b' * 254],
           'destination': ['', 'a', '1.2', 'a.b:c', ':', 'a.' + 'b' * 254], 'error_name': ['', 'a', 'a.', 'a.1b']}
    good = {'path': '/p', 'member': 'M', 'interface': 'a.b', 'destination': 'a.b', 'error_name': 'a.b'}
    for pos in list(bad):
        bad[pos] = bad[pos] + [good[pos] + '\n', good[pos] + '\r\n', '\n' + good[pos], good[pos] + '\0', good[pos] + ' ']
    for pos, vals in bad.items():
        for v in vals:
            for ctor in ('call', 'signal', 'error', 'return'):
                a = {'path': '/p', 'member': 'M', 'interface': 'a.b', 'destination': 'a.b', 'error_name': 'a.b'}
                if pos in ('path', 'member', 'interface') and ctor in ('error', 'return'):
                    continue
                if pos == 'error_name' and ctor != 'error':
                    continue
                if pos == 'path' and v == '/org/freedesktop/DBus/Local' and ctor != 'call':
                    continue
                a[pos] = v
                ctx.count('evaluations')
                ctx.count('name_probes')
                case = {'kind': 'name', 'ctor': ctor, 'pos': pos, 'value': v}
                try:
                    if ctor == 'call':
                        MSG.MethodCallMessage(a['path'], a['member'], interface=a['interface'], destination=a['destination'])
                    elif ctor == 'signal':
                        MSG.SignalMessage(a['path'], a['member'], a['interface'], destination=a['destination'])
                    elif ctor == 'error':
                        MSG.ErrorMessage(a['error_name'], 1, destination=a['destination'])
                    else:
                        MSG.MethodReturnMessage(1, destination=a['destination'])
                except MarshallingError:
                    continue
                except Exception as e:
                    ctx.report('ctor-wrong-exception-type', '%s message with %s=%r raised %r' % (ctor, pos, v, e), case, case)
                    continue
                ctx.report('invalid-name-constructed', '%s message constructed with invalid %s=%r' % (ctor, pos, v), case, case)
    cross_position_probes(ctx)


# strings that are valid in one header position and invalid in another: each is first used where it is valid (the
# message must be constructible, by the same constructors), then where it is not (validation that remembers a string
# it has seen, whichever validator saw it, shows only in this order)
CROSS = [
    ('destination', 'com.example.my-app', ('interface', 'error_name', 'member', 'path')),
    ('destination', ':1.42', ('interface', 'error_name', 'member', 'path')),
    ('destination', 'a-b.c_d', ('interface', 'error_name')),
    ('destination', ':a.7-x', ('interface', 'error_name', 'member')),
    ('sender', ':1.43', ('interface', 'error_name')),
    ('sender', 'org.x-y.Z', ('interface', 'error_name', 'destination_ok')),
    ('member', 'PlainMember', ('interface', 'error_name', 'destination', 'path')),
    ('member', '_m9', ('interface', 'error_name', 'destination')),
    ('interface', 'org.ex.Iface9', ('member', 'path')),
    ('error_name', 'org.ex.Err9', ('member', 'path')),
    ('path', '/org/ex/p9', ('member', 'interface', 'error_name', 'destination')),
    ('path', '/', ('member', 'interface', 'error_name', 'destination')),
]


def _ctor_for(ctor, a):
    if ctor == 'call':
        return MSG.MethodCallMessage(a['path'], a['member'], interface=a['interface'], destination=a['destination'])
    if ctor == 'signal':
        return MSG.SignalMessage(a['path'], a['member'], a['interface'], destination=a['destination'])
    if ctor == 'error':
        return MSG.ErrorMessage(a['error_name'], 1, destination=a['destination'], sender=a.get('sender'))
    return MSG.MethodReturnMessage(1, destination=a['destination'])


def cross_position_probes(ctx):
    good = {'path': '/p', 'member': 'M', 'interface': 'a.b', 'destination': 'a.b', 'error_name': 'a.b', 'sender': None}
    ctors_of = {'path': ('call', 'signal'), 'member': ('call', 'signal'), 'interface': ('call', 'signal'),
                'destination': ('call', 'signal', 'error', 'return'), 'error_name': ('error',), 'sender': ('error',)}
    for okpos, v, badposs in CROSS:
        for rounds in (1, 2):
            for ctor in ctors_of[okpos]:
                a = dict(good)
                a[okpos] = v
                case = {'kind': 'cross', 'ctor': ctor, 'valid_pos': okpos, 'value': v}
                ctx.count('evaluations')
                ctx.count('cross_position_probes')
                try:
                    m = _ctor_for(ctor, a)
                    p = RM.parse(m.rawMessage, strict=True)
                    if p.fields.get(okpos) != v:
                        ctx.report('wire-content', '%s with %s=%r carries %r there' % (ctor, okpos, v, p.fields.get(okpos)),
                                   case, case)
                except Exception as e:
                    ctx.report(None, '%s message with valid %s=%r raised %r' % (ctor, okpos, v, e), case, case)
            for badpos in badposs:
                if badpos.endswith('_ok'):
                    continue
                for ctor in ctors_of[badpos]:
                    a = dict(good)
                    a[badpos] = v
                    case = {'kind': 'cross', 'ctor': ctor, 'valid_pos': okpos, 'pos': badpos, 'value': v}
                    ctx.count('evaluations')
                    ctx.count('cross_position_probes')
                    try:
                        _ctor_for(ctor, a)
                    except MarshallingError:
                        continue
                    except Exception as e:
                        ctx.report('ctor-wrong-exception-type', '%s message with %s=%r raised %r' % (ctor, badpos, v, e),
                                   case, case)
                        continue
                    ctx.report('invalid-name-constructed', '%s message constructed with %s=%r (a valid %s, used as one just '
                               'before)' % (ctor, badpos, v, okpos), case, case)


def serial_range_end(ctx):
    """A long-lived process reaches the end of the 32-bit serial range (the counter is moved there instead of
    constructing 2**32 messages): whatever is still constructed carries a serial that is non-zero, fits UINT32 and was not
    handed out before; refusing to construct is the other acceptable outcome."""
    cls = MSG.DBusMessage
    if not isinstance(getattr(cls, '_nextSerial', None), int):
        ctx.count('serial_counter_not_found')
        return
    saved = cls._nextSerial
    try:
        for start in (2**32 - 3, 2**31 - 2, 2**16 - 2):
            cls._nextSerial = start
            seen = set()
            for i in range(8):
                ctx.count('evaluations')
                ctx.count('serial_range_end_constructions')
                try:
                    m = (MSG.SignalMessage('/a', 'M', 'a.b') if i % 2 else
                         MSG.MethodCallMessage('/a', 'M', interface='a.b', destination='a.b'))
                except Exception:
                    ctx.count('constructions_refused_at_the_end_of_the_serial_range')
                    continue
                s_ = m.serial
                case = {'kind': 'serial-range-end', 'start': start}
                w = {'counter_moved_to': start, 'message_number': i, 'serial': s_}
                bad = not isinstance(s_, int) or s_ == 0 or s_ >= 2**32 or s_ in seen
                try:
                    p_ = RM.parse(m.rawMessage, strict=True)
                    bad = bad or p_.serial != s_
                except R.CodecError as e:
                    w['malformed'] = str(e)
                    bad = True
                if bad:
                    ctx.report('serial-not-fresh', 'with the serial counter at %d, message %d was constructed with serial %r' % (
                        start, i, s_), w, case)
                    return
                seen.add(s_)
    finally:
        cls._nextSerial = max(saved, 2**16 + 16)


def longest_signature(ctx):
    """Body signatures of the greatest legal length (255 characters, what the one-byte length of the SIGNATURE type holds)
    and just below: constructed, serialised, strictly parsed, parsed back - also as another implementation would write
    them, in either byte order."""
    for n in (255, 254, 253, 128, 127):
        for sig, vals in (('y' * n, [i % 256 for i in range(n)]), ('s' + 'y' * (n - 1), ['text'] + [7] * (n - 1)),
                          ('(' + 'y' * (n - 2) + ')', [[1] * (n - 2)])):
            case = {'kind': 'longest-signature', 'n': n, 'sig': sig[:12]}
            ctx.count('evaluations')
            ctx.count('longest_signature_cases')
            w = {'signature_length': len(sig), 'signature_start': sig[:16]}
            try:
                m = MSG.SignalMessage('/a', 'M', 'a.b', signature=sig, body=vals)
                raws = [('built', m.rawMessage)]
            except Exception as e:
                ctx.report(None, 'a signal with a %d-character signature cannot be constructed: %r' % (len(sig), e), w, case)
                continue
            for little in (True, False):
                raws.append(('foreign-%s' % ('le' if little else 'be'),
                             RM.build(4, 4242, {'path': '/a', 'member': 'M', 'interface': 'a.b'}, sig, vals, little)))
            for how, raw in raws:
                try:
                    RM.parse(raw, strict=True)
                    back = MSG.parseMessage(raw, [])
                except Exception as e:
                    ctx.report('longest-signature-refused', 'a %s message whose signature is %d characters long does not parse '
                               'back: %r' % (how, len(sig), e), w, case)
                    break
                if back.signature != sig or not R.plain_eq(back.body, vals):
                    ctx.report('longest-signature-refused', 'a %s message whose signature is %d characters long parses back with '
                               'another signature or body' % (how, len(sig)), w, case)
                    break


def run(ctx):
    selfcheck.check_codec()
    si, sn = ctx.shard or (0, 1)
    ctx.rule = ('built: 4 constructors x every subset of {destination, interface/sender, body} x flags x random bodies, '
                'strictly parsed by harness/ref_message.py and parsed back by parseMessage; foreign: reference-built '
                'messages in both byte orders with shuffled fields, unknown field codes and flag bits, parsed by '
                'parseMessage; serial monitor; 2**27 size probes; invalid-name probes. distinct_nontrivial = distinct '
                '(direction, type, field subset, flags, body shape)')
    nb = (3000 if ctx.tier == 'quick' else 80000) // sn
    nf = (3000 if ctx.tier == 'quick' else 80000) // sn
    ctx.budget(40 if ctx.tier == 'quick' else 500)
    for i in range(nb):
        check_built(ctx, ctx.seed, si * nb + i)        # contiguous blocks: type and byte order cycle with the index
        if ctx.stop_early() or (i % 64 == 0 and ctx.out_of_time()):
            break
    for i in range(nf):
        check_foreign(ctx, ctx.seed, si * nf + i)
        if ctx.stop_early() or (i % 64 == 0 and ctx.out_of_time()):
            break
    ctx.note('serials_seen', len(_serials))
    for i in (0, 1):
        raw, exp, body, info = foreign_case(ctx.seed, i)
        ctx.sample({'foreign_message_hex': raw.hex()[:240], 'expected': exp, 'info': info})
    if si == 0:
        failed_reserialisation(ctx)
        name_probes(ctx)
        size_probes(ctx)
        # serial freshness over a long construction history (a counter that wraps early shows only here)
        before = len(_serials)
        for i in range(70000):
            m = MSG.SignalMessage('/a', 'M', 'a.b')
            s_ = m.serial
            if s_ in _serials or not isinstance(s_, int) or s_ == 0 or s_ >= 2**32:
                ctx.report('serial-not-fresh', 'serial %r handed out again (or zero / out of range) after %d messages' % (
                    s_, len(_serials)), {'serial': s_, 'messages_so_far': len(_serials)}, {'kind': 'long-serial'})
                break
            _serials.add(s_)
        ctx.count('evaluations', len(_serials) - before)
        ctx.count('long_serial_run', len(_serials) - before)
        serial_range_end(ctx)
        longest_signature(ctx)
    ctx.require(ctx.ndistinct('field_subsets') >= 32 or sn > 1, 'not every constructor x field subset reached')
    ctx.require(ctx.counters.get('foreign_big', 0) > 100, 'too few big-endian foreign messages')


def replay(ctx, rp):
    case = rp['case']
    seed = rp.get('seed', 0)
    if case['kind'] == 'built':
        check_built(ctx, seed, case['idx'])
    elif case['kind'] == 'foreign':
        check_foreign(ctx, seed, case['idx'])
    elif case['kind'] == 'size':
        size_probes(ctx)
    elif case['kind'] == 'longest-signature':
        longest_signature(ctx)
    elif case['kind'] == 'serial-range-end':
        serial_range_end(ctx)
    else:
        name_probes(ctx)
