"""
C11 — a call through a proxy reaches the remote method and returns what it returned.

Real clients + the real Bus on the simulated network.  An exporter publishes an object of a
generated interface; callers obtain proxies (explicit interfaces or introspection over the
wire) and issue 1-3 concurrent calls.  The harness explores the order in which the pending
writes of all links are delivered (bounded DFS for small scenarios, random orders with read
splitting beyond) and when Deferreds returned by the implementation fire.
Oracle: token-carrying arguments/results, the documented return convention, exactly-once.
"""
import random

from twisted.internet import defer, task

from harness import busnet, clientfix, gen, ref_grammar as G
from harness.ref_codec import plain_eq
from txdbus import client as C
from txdbus import error as E
from txdbus import interface as I
from txdbus import marshal as M
from txdbus import objects as O

PROP = 'C11'
LEVEL = 'exploration'
SHARDS = {'thorough': 16}

SIGS = ['', 's', 'i', 'si', 'as', '(is)', 'a{ss}', 'sv', 'ss', 'ai', 'x', 'sd', 'say', 'a(si)', 't']
WELL_KNOWN = 'org.verif.Exporter'


class _Outer:
    class VerifErr(Exception):
        """Same class NAME as the module-level one, defined inside another class."""


def _local_error_class():
    class VerifErr(Exception):
        """Same class name, local to a function."""
    return VerifErr


def err_class(tok):
    """The error reply is named after the exception's class name wherever that class is defined."""
    return (VerifErr, _Outer.VerifErr, _local_error_class())[len(str(tok)) % 3]


class VerifErr(Exception):
    pass


class Scenario:
    def __init__(self, seed, idx):
        r = self.r = random.Random('%s/c11/%s' % (seed, idx))
        self.idx = idx
        self.iface_name = 'org.verif.c11.C%d' % idx
        self.methods = {}
        # (Ping and GetManagedObjects are also member names of standard interfaces every object has: a user interface may
        # declare its own)
        for m in r.sample(['Alpha', 'Beta', 'Gamma', 'Delta', 'Ping', 'GetManagedObjects'], r.randint(1, 3)):
            si, so = r.choice(SIGS), r.choice(SIGS)
            kind = r.choice(['value', 'value', 'echo', 'raise', 'raise-named', 'deferred', 'deferred-fail'])
            if kind == 'echo' and 'v' in si:
                kind = 'value'        # a decoded variant has lost its wrapper type: echoing it is C19's subject
            if kind == 'echo':
                so = si
            self.methods[m] = {'in': si, 'out': so, 'kind': kind}
        if idx % 9 == 5:
            # one implementation is buggy: what it returns does not fit the signature it declares (a forgotten return, a
            # text where a number is declared).  That value cannot travel, so nothing is said about WHAT the caller gets -
            # only that its call completes (once), like every other call; calls beside it are unaffected
            m = sorted(self.methods)[0]
            self.methods[m] = {'in': self.methods[m]['in'], 'out': r.choice(['s', 'i', 'si', 'as', 'y']), 'kind': 'misfit'}
        # optionally a second exported interface re-using member names with other signatures: calls then name
        # the interface they mean
        self.iface2_name = self.iface_name + 'b'
        self.methods2 = {}
        if r.random() < 0.4:
            for m in r.sample(sorted(self.methods), r.randint(1, len(self.methods))):
                si, so = r.choice(SIGS), r.choice(SIGS)
                self.methods2[m] = {'in': si, 'out': so, 'kind': r.choice(['value', 'value', 'raise'])}
        self.ncallers = r.choice([1, 1, 2, 3])
        self.use_name = r.random() < 0.5
        self.proxy_mode = [r.choice(['explicit', 'introspect']) for _ in range(self.ncallers)]
        self.ncalls = r.choice([1, 2, 3])
        self.calls = []
        g = gen.Gen(r, max_depth=2, allow_h=False)
        for k in range(self.ncalls):
            m = r.choice(sorted(self.methods))
            spec = self.methods[m]
            which = 1
            if m in self.methods2 and r.random() < 0.5:
                spec = self.methods2[m]
                which = 2
            types = G.split_signature(spec['in'])
            tv = [g.value(ct) for ct in types]
            args = [gen.py_input(ct, v, r, [], marshal_mod=M, plain=True) for ct, v in zip(types, tv)]
            if types and types[0] == 's':
                args[0] = 'tok-%d-%d' % (idx, k)
            otypes = G.split_signature(spec['out'])
            ov = [gen.py_input(ct, g.value(ct), r, [], marshal_mod=M, plain=True) for ct in otypes]
            self.calls.append({'k': k, 'caller': r.randrange(self.ncallers), 'method': m, 'args': args, 'which': which,
                               'spec': spec,
                               'args_norm': [gen.normalise(ct, a) for ct, a in zip(types, args)],
                               'ret': ov, 'ret_norm': [gen.normalise(ct, v) for ct, v in zip(otypes, ov)]})

        # calls that the implementation cannot tell apart (same method, equal arguments) get the same answer
        for i, c in enumerate(self.calls):
            for e in self.calls[:i]:
                if e['method'] == c['method'] and e['which'] == c['which'] and plain_eq(e['args_norm'], c['args_norm']):
                    c['ret'], c['ret_norm'] = e['ret'], e['ret_norm']
                    break

    def interface(self):
        return I.DBusInterface(self.iface_name, *[I.Method(m, arguments=s['in'], returns=s['out'])
                                                  for m, s in sorted(self.methods.items())], noRegister=True)

    def interfaces(self):
        out = [self.interface()]
        if self.methods2:
            out.append(I.DBusInterface(self.iface2_name, *[I.Method(m, arguments=s['in'], returns=s['out'])
                                                           for m, s in sorted(self.methods2.items())], noRegister=True))
        return out

    def describe(self):
        return {'idx': self.idx, 'methods': self.methods, 'second_interface': self.methods2, 'callers': self.ncallers, 'proxy_mode': self.proxy_mode,
                'well_known_name': self.use_name,
                'calls': [{'caller': c['caller'], 'method': c['method'], 'interface': c['which'],
                           'args': repr(c['args'])[:120]} for c in self.calls]}


def convention(out_sig, values):
    if not values:
        return None
    if len(values) == 1 and not out_sig.startswith('('):
        return values[0]
    return list(values)


class Run:
    """One execution of a scenario under a given choice sequence."""

    def __init__(self, sc, chooser, split_rng=None):
        self.sc = sc
        self.chooser = chooser
        self.split_rng = split_rng
        self.invocations = []
        self.pending_deferreds = []
        self.current_plan = {}
        self.decoy_callers = []
        self.replica_runs = []

    def build_exporter_class(self):
        sc = self.sc
        run = self
        # every third exporter is a two-level class hierarchy whose decorator-bound implementations of ONE interface are
        # spread over the base class and the derived class (the exported object is an instance of the derived class)
        hierarchy = sc.idx % 3 == 1
        attrs = {'dbusInterfaces': sc.interfaces()}
        derived = {}
        j = 0
        for which, iname, methods in ((1, sc.iface_name, sc.methods), (2, sc.iface2_name, sc.methods2)):
            for m, spec in sorted(methods.items()):
                nargs = len(G.split_signature(spec['in']))
                params = ['self'] + ['a%d' % i for i in range(nargs)]
                shared = m in sc.methods2 or hierarchy
                fname = ('impl%d_%s' % (which, m)) if shared else 'dbus_' + m
                src = 'def %s(%s):\n    return _impl(%r, [%s], %d)\n' % (fname, ', '.join(params), m,
                                                                          ', '.join('a%d' % i for i in range(nargs)), which)
                ns = {'_impl': run.impl}
                exec(src, ns)
                target = derived if (hierarchy and j % 2) else attrs
                target[fname] = O.dbusMethod(iname, m)(ns[fname]) if shared else ns[fname]
                j += 1
        if hierarchy:
            self.hierarchy_levels = (len(attrs) - 1, len(derived))
            if sc.methods2:
                # the second interface is declared by the derived class only
                ifs = sc.interfaces()
                attrs['dbusInterfaces'] = ifs[:1]
                derived['dbusInterfaces'] = ifs[1:]
            base = type('ExpBase%d' % sc.idx, (O.DBusObject,), attrs)
            self.base_class = base
            return type('Exp%d' % sc.idx, (base,), derived)
        return type('Exp%d' % sc.idx, (O.DBusObject,), attrs)

    def impl(self, method, args, which=1):
        sc = self.sc
        spec = (sc.methods if which == 1 else sc.methods2)[method]
        self.invocations.append((method, args, which))
        # which scripted call is this?  identified by its arguments (tokens make most of them unique)
        call = None
        for c in sc.calls:
            if c['method'] == method and c['which'] == which and not c.get('_served') and plain_eq(args, c['args_norm']):
                call = c
                c['_served'] = True
                break
        kind = spec['kind']
        ret = call['ret'] if call else []
        nret = len(G.split_signature(spec['out']))

        def value():
            if kind == 'echo':
                vals = list(args)
            else:
                vals = list(ret)
            if nret == 0:
                return None
            if nret == 1:
                return vals[0]
            return tuple(vals)
        tok = args[0] if args and isinstance(args[0], str) else method
        if kind == 'misfit':
            return {'s': None, 'i': 'not a number', 'si': ('only one',), 'as': 7, 'y': 300}[spec['out']]
        if kind in ('value', 'echo'):
            return value()
        if kind == 'raise':
            raise err_class(tok)('failed ' + str(tok))
        if kind == 'raise-named':
            e = err_class(tok)('named ' + str(tok))
            e.dbusErrorName = 'org.verif.Error.Named'
            raise e
        d = defer.Deferred()
        self.pending_deferreds.append((d, kind, value(), tok))
        return d

    def execute(self, ctx, case):
        sc = self.sc
        saved = dict(I.DBusInterface.knownInterfaces)
        for c in sc.calls:
            c.pop('_served', None)
        try:
            return self._execute(ctx, case)
        finally:
            I.DBusInterface.knownInterfaces.clear()
            I.DBusInterface.knownInterfaces.update(saved)

    def _execute(self, ctx, case):
        sc = self.sc
        net = busnet.Net()
        churn = sc.idx % 3 == 0
        if churn:
            # the population of the bus changes around the scenario: a client that attached first leaves again, and a
            # late-comer attaches, while exporter and callers stay
            early = net.real_client()
            busnet.pump(net)
        exporter = net.real_client(unix=sc.idx % 2 == 0)
        callers = [net.real_client(unix=(sc.idx + i) % 3 == 0) for i in range(sc.ncallers)]
        busnet.pump(net)
        if churn:
            early.disconnect()
            busnet.pump(net)
            late = net.real_client()
            busnet.pump(net)
            ctx.count('scenarios_with_client_churn')
            names_ = [c_.conn.busName for c_ in [exporter, late] + callers if c_.conn_result and c_.conn_result[0][0] == 'ok']
            if len(set(names_)) != len(names_):
                ctx.report('unique-name-reused', 'two attached clients were given the same unique name: %r' % names_,
                           {'scenario': sc.describe()}, case)
                return False
        w = {'scenario': sc.describe(), 'choices': self.chooser.taken}
        for c in [exporter] + callers:
            if not c.conn_result or c.conn_result[0][0] != 'ok':
                ctx.report(classify_connect(c), 'a client could not attach to the built-in bus: %r' % (c.conn_result,), w, case)
                return False
        rcls = None
        if sc.idx % 4 == 3:
            # another client of the same process exports an object of its own at the very same path (replicas of a
            # service, one process on two buses): calls addressed to the first exporter are none of its business
            replica = net.real_client()
            busnet.pump(net)
            if replica.conn_result and replica.conn_result[0][0] == 'ok':
                rcls = type('Replica%d' % sc.idx, (O.DBusObject,), {
                    'dbusInterfaces': [I.DBusInterface('org.verif.c11.Replica', I.Method('Who', returns='s'), noRegister=True)],
                    'dbus_Who': lambda self_: self.replica_runs.append('who') or 'replica'})
                replica.conn.exportObject(rcls('/exp'))
                ctx.count('scenarios_with_a_replica_exporter_in_the_process')
        cls_ = self.build_exporter_class()
        if getattr(self, 'base_class', None) is not None and sc.idx % 2:
            # an instance of the BASE class is exported (and thereby used) first: what is worked out per class on first use
            # must not be inherited by the derived class
            exporter.conn.exportObject(self.base_class('/base'))
            ctx.count('base_class_instance_exported_first')
        obj = cls_('/exp')
        if getattr(self, 'hierarchy_levels', None) and min(self.hierarchy_levels) > 0:
            ctx.count('exporters_binding_one_interface_on_two_class_levels')
        exporter.conn.exportObject(obj)
        if sc.idx % 8 == 7 and rcls is not None:
            # ... and once more after the first exporter (an export replaces what THAT connection had at the path)
            replica.conn.exportObject(rcls('/exp'))
        dest = exporter.conn.busName
        if sc.use_name:
            out = clientfix.Outcome(exporter.conn.requestBusName(WELL_KNOWN))
            busnet.pump(net)
            if out.fired != 1 or out.results[0][0] != 'ok':
                ctx.report('name-request', 'exporter could not acquire its well-known name: %r' % out.results, w, case)
                return False
            dest = WELL_KNOWN
        if sc.idx % 6 == 3:
            # the exporter first declared one member differently, was introspected in that state, and then re-declared
            # the member (same name) as the scenario has it: later introspection must describe the current declaration
            ifc = next(i_ for i_ in obj.getInterfaces() if i_.name == sc.iface_name)
            m0 = sorted(sc.methods)[0]
            real = sc.methods[m0]
            ifc.addMethod(I.Method(m0, arguments=real['in'] + 'i', returns='s' if real['out'] != 's' else 'u'))
            clientfix.Outcome(callers[0].conn.callRemote('/exp', 'Introspect', destination=dest,
                                                         interface='org.freedesktop.DBus.Introspectable'))
            busnet.pump(net)
            ifc.addMethod(I.Method(m0, arguments=real['in'], returns=real['out']))
            ctx.count('member_redeclared_after_introspection')
        if sc.idx % 4 == 1:
            # another class on the exporting client implements the same interface members, asking for the caller's name
            # (dbusCaller), and is called first: what the library learns about that implementation must not be applied
            # to the scripted one
            dattrs = {'dbusInterfaces': [sc.interface()]}
            for m, spec in sc.methods.items():
                nargs = len(G.split_signature(spec['in']))
                src = 'def dbus_%s(%s):\n    _seen.append(dbusCaller)\n' % (
                    m, ', '.join(['self'] + ['a%d' % i for i in range(nargs)] + ['dbusCaller=None']))
                ns = {'_seen': self.decoy_callers}
                exec(src, ns)
                dattrs['dbus_' + m] = ns['dbus_' + m]
            exporter.conn.exportObject(type('Decoy%d' % sc.idx, (O.DBusObject,), dattrs)('/decoy'))
            first = next((c_ for c_ in sc.calls if c_['which'] == 1), None)
            if first is not None:
                clientfix.Outcome(callers[first['caller']].conn.callRemote(
                    '/decoy', first['method'], interface=sc.iface_name, destination=dest,
                    signature=first['spec']['in'], body=first['args']))
                busnet.pump(net)
                ctx.count('decoy_implementation_called_first')
                if self.decoy_callers and self.decoy_callers[-1] != callers[first['caller']].conn.busName:
                    ctx.report('caller-name', 'an implementation asking for dbusCaller got %r, the calling client is %r' % (
                        self.decoy_callers[-1], callers[first['caller']].conn.busName), w, case)
                    return False
        if sc.methods2 and sc.idx % 2 and 'introspect' in sc.proxy_mode:
            # the calling process already knows the exporter's FIRST interface (same definition, registered) but not the
            # second: introspection reuses the known one and must still learn the other completely
            I.DBusInterface(sc.iface_name, *[I.Method(m, arguments=s_['in'], returns=s_['out'])
                                             for m, s_ in sorted(sc.methods.items())])
            ctx.count('first_interface_already_known')
        if sc.idx % 5 == 4 and all(m_ == 'explicit' for m_ in sc.proxy_mode):
            # the calling process knows an OLDER revision of the interface under the same name (declared and registered
            # earlier, or learnt by an introspection): a proxy built from definitions handed in explicitly uses those
            I.DBusInterface(sc.iface_name, I.Method('OnlyInTheOldRevision', arguments='i', returns='i'),
                            *[I.Method(m, arguments='i', returns='i') for m in sorted(sc.methods)[:1]])
            ctx.count('stale_definition_registered_under_the_same_name')
        proxies = []
        for i, c in enumerate(callers):
            if sc.proxy_mode[i] == 'explicit':
                d = c.conn.getRemoteObject(dest, '/exp', sc.interfaces())
            else:
                d = c.conn.getRemoteObject(dest, '/exp')
            proxies.append(clientfix.Outcome(d))
        busnet.pump(net)
        for i, p in enumerate(proxies):
            if p.fired != 1 or p.results[0][0] != 'ok':
                ctx.report('proxy-unavailable', 'caller %d could not obtain a %s proxy: %r' % (
                    i, sc.proxy_mode[i], [(k, repr(v)[:200]) for k, v in p.results]), w, case)
                return False
        if sc.idx % 5 == 2:
            # every link becomes an in-process loop-back pipe: a call's whole round trip (caller -> bus -> exporter -> bus
            # -> caller) then happens inside the caller's transport.write()
            busnet.pump(net)
            for c_ in [exporter] + callers:
                c_.set_immediate()
            ctx.count('scenarios_with_immediate_delivery')
        unawaited = None
        if sc.idx % 7 == 4:
            # replies nobody waits for arrive among the awaited ones: the answer to a fire-and-forget Ping (the exporting
            # side answers the standard interfaces whatever the flag says) and the answer to a call whose deadline has
            # already passed.  They are nobody's result and the calls in flight beside them complete as always.
            clock = task.Clock()
            saved_reactor = C.reactor
            C.reactor = clock
            try:
                cc = callers[0].conn
                unawaited = [clientfix.Outcome(cc.callRemote('/exp', 'Ping', interface='org.freedesktop.DBus.Peer',
                                                             destination=dest, expectReply=False)),
                             clientfix.Outcome(cc.callRemote('/exp', 'Ping', interface='org.freedesktop.DBus.Peer',
                                                             destination=dest, timeout=1.0))]
                clock.advance(2.0)
            finally:
                C.reactor = saved_reactor
            ctx.count('scenarios_with_unawaited_replies')
        # ---- issue the calls concurrently, then explore delivery orders
        outcomes = []
        for call in sc.calls:
            prox = proxies[call['caller']].results[0][1]
            try:
                kw = {}
                if sc.methods2:
                    kw['interface'] = sc.iface_name if call['which'] == 1 else sc.iface2_name
                    # a call naming no interface goes to the first interface of the proxy that declares the member -
                    # whatever was called on that proxy before, by name or not
                    if (call['which'] == 1 and sc.proxy_mode[call['caller']] == 'explicit'
                            and call['method'] not in ('Ping', 'GetManagedObjects') and (sc.idx + call['k']) % 3 != 0):
                        del kw['interface']
                        ctx.count('unqualified_calls_of_a_member_two_interfaces_declare'
                                  if call['method'] in sc.methods2 else 'unqualified_calls')
                # the keyword arguments a caller may add do not change what the call does
                extra = [{}, {}, {'autoStart': False}, {'timeout': 50000.0}, {'autoStart': False, 'timeout': 50000.0},
                         {'expectReply': True}][(sc.idx + call['k']) % 6]
                kw.update(extra)
                if extra:
                    ctx.count('calls_with_extra_keywords')
                d = prox.callRemote(call['method'], *call['args'], **kw)
            except Exception as e:
                ctx.report('callremote-raised', 'proxy.callRemote(%s) raised %r for a declared method and conforming '
                           'arguments (%s proxy)' % (call['method'], e, sc.proxy_mode[call['caller']]), w, case)
                return False
            outcomes.append(clientfix.Outcome(d))
        steps = 0
        while steps < 400:
            options = []
            for c in net.clients:
                for d in c.pending():
                    options.append(('deliver', c.index, d))
            for i in range(len(self.pending_deferreds)):
                options.append(('fire', i, None))
            if not options:
                break
            pick = self.chooser.choose(len(options))
            kind, a, b = options[pick]
            steps += 1
            if kind == 'deliver':
                c = net.clients[a]
                n = None
                if self.split_rng is not None and self.split_rng.random() < 0.5:
                    q = c.c2s if b == 'c2s' else c.s2c
                    n = self.split_rng.randint(1, len(q))
                c.deliver(b, n)
            else:
                d, k, val, tok = self.pending_deferreds.pop(a)
                if k == 'deferred':
                    d.callback(val)
                else:
                    d.errback(err_class(tok)('late ' + str(tok)))
            crashes = net.crashes() + [(c.index, e) for c in net.clients for e in c.client.crashes]
            if crashes:
                w['crash'] = repr(crashes[0])
                ctx.report('crash', 'a connection crashed with %r during delivery' % (crashes[0][1],), w, case)
                return False
        ctx.counters['max_deliveries_per_execution'] = max(ctx.counters.get('max_deliveries_per_execution', 0), steps)
        # ---- verdicts
        ok = True
        if unawaited is not None:
            for what, out in zip(('fire-and-forget Ping', 'Ping with a deadline that passed before its reply'), unawaited):
                if out.fired != 1:
                    ctx.report('completed-%d-times' % out.fired, '%s completed %d times' % (what, out.fired), w, case)
                    ok = False
            late = unawaited[1]
            if late.fired == 1 and sc.idx % 5 != 2 and not (late.results[0][0] == 'err' and
                                                             isinstance(late.results[0][1].value, E.TimeOut)):
                ctx.report('wrong-result', 'a call whose deadline passed before anything was delivered completed with %r' % (
                    late.results,), w, case)
                ok = False
        for call, out in zip(sc.calls, outcomes):
            spec = call['spec']
            cw = dict(w, call={'caller': call['caller'], 'method': call['method'], 'kind': spec['kind'],
                               'proxy': sc.proxy_mode[call['caller']], 'in': spec['in'], 'out': spec['out']},
                      results=[(k, repr(v.value if k == 'err' else v)[:200]) for k, v in out.results])
            if out.fired != 1:
                ctx.report('completed-%d-times' % out.fired, 'proxy call %s completed %d times' % (call['method'], out.fired),
                           cw, case)
                ok = False
                continue
            kind, val = out.results[0]
            k = spec['kind']
            if k == 'misfit':
                ctx.count('calls_to_a_misfit_implementation_completed')
                continue
            if k in ('value', 'echo', 'deferred'):
                want_vals = call['args_norm'] if k == 'echo' else call['ret_norm']
                want = convention(spec['out'], want_vals)
                if kind != 'ok' or not plain_eq(val, want):
                    cw['expected'] = repr(want)[:200]
                    ctx.report('wrong-result', 'proxy call %s(%s) completed with %s %r, the method returned %r' % (
                        call['method'], spec['in'], kind, repr(val.value if kind == 'err' else val)[:80], repr(want)[:80]),
                        cw, case)
                    ok = False
                    continue
            else:
                name = 'org.verif.Error.Named' if k == 'raise-named' else 'org.txdbus.PythonException.VerifErr'
                text = {'raise': 'failed ', 'raise-named': 'named ', 'deferred-fail': 'late '}[k]
                good = (kind == 'err' and isinstance(val.value, E.RemoteError) and val.value.errName == name
                        and text in (val.value.message or ''))
                if not good:
                    ctx.report('wrong-error', 'proxy call %s should fail with RemoteError %s, got %s %r' % (
                        call['method'], name, kind, repr(val.value if kind == 'err' else val)[:100]), cw, case)
                    ok = False
                    continue
            ctx.count('calls_ok')
            ctx.count('calls_via_' + sc.proxy_mode[call['caller']])
        # every scripted call ran its implementation exactly once with equal arguments
        for call in sc.calls:
            n = sum(1 for m, a, wh in self.invocations if m == call['method'] and wh == call['which']
                    and plain_eq(a, call['args_norm']))
            same_args_calls = sum(1 for c2 in sc.calls if c2['method'] == call['method'] and c2['which'] == call['which']
                                  and plain_eq(c2['args_norm'], call['args_norm']))
            if n != same_args_calls:
                ctx.report('invocation-count', 'method %s ran %d times with the arguments of %d call(s)' % (
                    call['method'], n, same_args_calls), dict(w, invocations=[(m, repr(a)[:80], wh) for m, a, wh in self.invocations]),
                    case)
                ok = False
        if self.replica_runs:
            ctx.report('invocation-count', 'an object exported at the same path by ANOTHER client of the process ran %d times '
                       'for calls addressed to the exporter' % len(self.replica_runs), w, case)
            ok = False
        if len(self.invocations) != len(sc.calls):
            ctx.report('invocation-count', '%d implementation runs for %d calls' % (len(self.invocations), len(sc.calls)),
                       dict(w, invocations=[(m, repr(a)[:80], wh) for m, a, wh in self.invocations]), case)
            ok = False
        return ok


def classify_connect(c):
    return None


class Chooser:
    """Choice points of one execution: follows a prefix, then takes option 0 (DFS) or random."""

    def __init__(self, prefix=(), rng=None):
        self.prefix = list(prefix)
        self.taken = []
        self.widths = []
        self.rng = rng

    def choose(self, n):
        i = len(self.taken)
        if i < len(self.prefix):
            k = min(self.prefix[i], n - 1)
        elif self.rng is not None:
            k = self.rng.randrange(n)
        else:
            k = 0
        self.taken.append(k)
        self.widths.append(n)
        return k


def dfs(ctx, sc, limit, case):
    """Enumerate every choice sequence of the scenario (bounded).  Returns (executions, complete?)."""
    prefix = []
    n = 0
    while True:
        ch = Chooser(prefix)
        Run(sc, ch).execute(ctx, dict(case, choices=list(prefix)))
        n += 1
        ctx.count('evaluations')
        ctx.distinct('schedules', (sc.idx, tuple(ch.taken)))
        ctx.distinct('nontrivial_cases', (sc.idx, tuple(ch.taken)))
        # next sequence: increment the last choice that can be incremented
        taken, widths = ch.taken, ch.widths
        j = len(taken) - 1
        while j >= 0 and taken[j] + 1 >= widths[j]:
            j -= 1
        if j < 0:
            return n, True
        prefix = taken[:j] + [taken[j] + 1]
        if n >= limit or ctx.stop_early():
            return n, False


def run(ctx):
    si, sn = ctx.shard or (0, 1)
    quick = ctx.tier == 'quick'
    ctx.rule = ('scenarios: exporter + 1-3 callers on the real Bus, generated interface (1-3 methods, argument/return '
                'signatures from a pool of %d, outcomes value / echo / raise / named error / Deferred fired or failed '
                'later), proxies explicit or introspected over the wire, destination unique or well-known name, 1-3 '
                'concurrent calls; delivery orders of whole pending writes on all links and Deferred firing times '
                'enumerated by DFS (capped) for the small scenarios, random orders with random read splitting for all. '
                'distinct_nontrivial = distinct (scenario, schedule) executed' % len(SIGS))
    ctx.budget(55 if quick else 540)
    nsc = (400 if quick else 8000) // sn
    complete = 0
    for i in range(nsc):
        sc = Scenario(ctx.seed, i * sn + si)
        case = {'kind': 'dfs', 'idx': sc.idx}
        if sc.ncalls <= 2:
            n, done = dfs(ctx, sc, 150 if quick else 3000, case)
            ctx.count('dfs_scenarios')
            if done:
                complete += 1
        for j in range(4 if quick else 20):
            rng = random.Random('%s/c11sched/%s/%s' % (ctx.seed, sc.idx, j))
            ch = Chooser(rng=rng)
            Run(sc, ch, split_rng=rng).execute(ctx, {'kind': 'rand', 'idx': sc.idx, 'j': j})
            ctx.count('evaluations')
            ctx.count('random_schedules')
            ctx.distinct('schedules', (sc.idx, tuple(ch.taken)))
            ctx.distinct('nontrivial_cases', (sc.idx, tuple(ch.taken)))
        ctx.count('scenarios')
        ctx.counters['max_concurrency'] = max(ctx.counters.get('max_concurrency', 0), sc.ncalls)
        if ctx.stop_early() or ctx.out_of_time():
            break
    ctx.note('dfs_scenarios_enumerated_completely', complete)
    ctx.exhaustive = False
    ctx.sample(Scenario(ctx.seed, 0).describe())
    ctx.require(ctx.counters.get('calls_ok', 0) > 50 or ctx.n_new_violations() or ctx.known_hits, 'too few completed calls')
    ctx.require(ctx.counters.get('calls_via_introspect', 0) > 5 or ctx.n_new_violations() or ctx.known_hits,
                'introspected proxies never exercised')


def replay(ctx, rp):
    case = rp['case']
    sc = Scenario(rp.get('seed', 0), case['idx'])
    if case['kind'] == 'dfs':
        Run(sc, Chooser(case.get('choices') or rp.get('witness', {}).get('choices') or [])).execute(ctx, case)
    else:
        rng = random.Random('%s/c11sched/%s/%s' % (rp.get('seed', 0), sc.idx, case['j']))
        Run(sc, Chooser(rng=rng), split_rng=rng).execute(ctx, case)
