"""
C16 — the exported-object tree seen remotely is exactly what was exported.

Histories of exportObject / unexportObject over a path pool with parents, children,
grandchildren and prefix-sharing siblings; after every step every path is queried through real
method-call messages (ordinary call, Introspect, GetManagedObjects) and the answers are compared
with a reference tree model; export/unexport signals are counted.
"""
import itertools
import random
import xml.dom.minidom

from harness import clientfix, ref_message as RM
from harness.ref_codec import Variant as RV
from txdbus import interface as I
from txdbus import objects as O

PROP = 'C16'
LEVEL = 'exploration'
SHARDS = {'thorough': 16}

POOL = ['/', '/a', '/a/b', '/a/bc', '/a/b/c', '/ab', '/a/b/c/d']
OUTSIDE = ['/zz', '/a/b/x', '/a/bcd']
UNKNOWN_OBJECT = 'org.freedesktop.DBus.Error.UnknownObject'
OTHER_CALLS = [('org.freedesktop.DBus.Peer', 'GetMachineId'), ('org.freedesktop.DBus.Properties', 'GetAll'),
               ('org.freedesktop.DBus.Introspectable', 'Nope'), ('org.freedesktop.DBus.ObjectManager', 'Nope'),
               ('org.verif.c16.Nowhere', 'Ping'), (None, 'Ping'), ('org.freedesktop.DBus.Properties', 'Nope'),
               ('org.verif.c16.B', 'Ping')]

IFACE_A = I.DBusInterface('org.verif.c16.A', I.Method('Ping', returns='s'), I.Property('Name', 's'),
                          I.Property('Secret', 's', readable=False, writeable=True), noRegister=True)
IFACE_B = I.DBusInterface('org.verif.c16.B', I.Method('Ping', returns='s'), I.Property('Count', 'i', writeable=True),
                          noRegister=True)


class ObjA(O.DBusObject):
    dbusInterfaces = [IFACE_A]
    name = O.DBusProperty('Name')
    secret = O.DBusProperty('Secret')

    def __init__(self, path):
        O.DBusObject.__init__(self, path)
        self.name = 'name-of-' + path
        self.secret = 'hidden'

    def dbus_Ping(self):
        return 'pong from ' + self.getObjectPath()

    def __len__(self):
        # an exported object may also be a container, and an empty one is falsy: the tree must not care
        return 0


class ObjAB(ObjA):
    dbusInterfaces = [IFACE_B]
    count = O.DBusProperty('Count')

    def __init__(self, path):
        ObjA.__init__(self, path)
        self.count = 5

    def __len__(self):
        return 2


# exported classes that declare the standard ObjectManager interface themselves (ported services do, to name its signals
# or out of habit) - one only declares it, the other also brings an implementation over a private, empty registry.  The
# tree a remote peer sees is the connection's export table all the same.
IFACE_OM = I.DBusInterface('org.freedesktop.DBus.ObjectManager', I.Method('GetManagedObjects', returns='a{oa{sa{sv}}}'),
                           I.Signal('InterfacesAdded', 'oa{sa{sv}}'), I.Signal('InterfacesRemoved', 'oas'), noRegister=True)


IFACE_L = I.DBusInterface('org.verif.c16.L', I.Method('Where', returns='s'), noRegister=True)


class _Locatable:
    """A plain helper class (not a DBusObject) that brings an interface of its own; listed BEHIND the DBusObject base."""
    dbusInterfaces = [IFACE_L]

    def dbus_Where(self):
        return 'here'


class ObjAM(ObjA, _Locatable):
    dbusInterfaces = [IFACE_OM]


class ObjABM(ObjAB, _Locatable):
    dbusInterfaces = [IFACE_OM]

    def dbus_GetManagedObjects(self):
        return {}


DECLARE_MANAGER = [False]


def children_of(path, exported):
    pre = path if path.endswith('/') else path + '/'
    out = set()
    for p in exported:
        if p != path and p.startswith(pre):
            out.add(p[len(pre):].split('/')[0])
    return out


def beneath(path, exported):
    pre = path if path.endswith('/') else path + '/'
    return {p for p in exported if p != path and p.startswith(pre)}


class World:
    def __init__(self):
        self.peer = clientfix.Peer().ready()
        self.conn = self.peer.proto
        self.exported = {}        # path -> kind 'A' | 'AB'
        self.objs = {}            # path -> the exported object
        self.names = {}           # path -> current value of Name if it was changed after export
        self.counts = {}          # path -> current value of Count if it was Set after export
        self.serial = 100
        self.peer.take()

    def call(self, path, member, interface=None, sig='', body=()):
        self.serial += 1
        fields = {'path': path, 'member': member, 'sender': ':1.50'}
        if interface:
            fields['interface'] = interface
        self.peer.send(RM.build(RM.METHOD_CALL, self.serial, fields, sig, list(body)))
        msgs = self.peer.take()
        return self.serial, msgs


def check_state(ctx, w_, hist, case):
    """Query every path; compare with the reference tree."""
    world = w_
    exported = world.exported
    for path in POOL + OUTSIDE:
        base = {'history': hist, 'exported': dict(exported), 'query_path': path}
        # --- ordinary call
        serial, msgs = world.call(path, 'Ping', 'org.verif.c16.A')
        ctx.count('evaluations')
        ctx.count('queries')
        rep = [m for m in msgs if m.fields.get('reply_serial') == serial]
        if world.peer.ep.crashes:
            ctx.report('crash', 'connection crashed with %r on a call to %s' % (world.peer.ep.crashes[0], path), base, case)
            return False
        if len(rep) != 1:
            ctx.report('reply-count', 'ordinary call to %s got %d replies' % (path, len(rep)), base, case)
            return False
        m = rep[0]
        if path in exported:
            if m.mtype != RM.METHOD_RETURN or m.body != ['pong from ' + path]:
                ctx.report('exported-not-reachable', 'call to exported %s answered %s %r' % (path, m.mtype, m.body), base, case)
                return False
        else:
            if m.mtype != RM.ERROR or m.fields.get('error_name') != UNKNOWN_OBJECT:
                ctx.report('unexported-answered', 'call to unexported %s answered %r %r instead of UnknownObject' % (
                    path, m.fields.get('error_name'), m.body), base, case)
                return False
        # --- "a call to a path not currently exported": whatever interface and member the call names (the standard
        #     interfaces included; only Peer.Ping, which the connection answers for itself, and Introspect, which has its
        #     own rule below, are left out)
        if path not in exported:
            probe_i = (len(hist) + len(path)) % len(OTHER_CALLS)
            for iface_, member_ in (OTHER_CALLS[probe_i], OTHER_CALLS[(probe_i + 3) % len(OTHER_CALLS)]):
                serial, msgs = world.call(path, member_, iface_)
                ctx.count('queries')
                rep = [m for m in msgs if m.fields.get('reply_serial') == serial]
                if len(rep) != 1 or rep[0].mtype != RM.ERROR or rep[0].fields.get('error_name') != UNKNOWN_OBJECT:
                    ctx.report('unexported-answered', 'call %s.%s to unexported %s answered %r instead of UnknownObject' % (
                        iface_, member_, path, [(m.fields.get('error_name'), m.body) for m in rep]), base, case)
                    return False
        # --- Introspect
        serial, msgs = world.call(path, 'Introspect', 'org.freedesktop.DBus.Introspectable')
        ctx.count('queries')
        rep = [m for m in msgs if m.fields.get('reply_serial') == serial]
        if len(rep) != 1:
            ctx.report('reply-count', 'Introspect on %s got %d replies' % (path, len(rep)), base, case)
            return False
        m = rep[0]
        want_children = children_of(path, exported)
        visible = path in exported or bool(want_children)
        if not visible:
            if m.mtype != RM.ERROR:
                ctx.report('introspect-phantom', 'Introspect succeeded for %s which has neither object nor descendants' % path,
                           base, case)
                return False
        else:
            if m.mtype != RM.METHOD_RETURN:
                ctx.report('introspect-failed', 'Introspect on visible path %s failed: %r' % (path, m.body), base, case)
                return False
            xml_text = m.body[0]
            try:
                dom = xml.dom.minidom.parseString(xml_text[xml_text.index('<node'):])
            except Exception as e:
                ctx.report('introspect-xml', 'Introspect XML for %s not well-formed: %s' % (path, e), base, case)
                return False
            root = dom.documentElement
            kids = [n.getAttribute('name') for n in root.childNodes if n.nodeType == n.ELEMENT_NODE and n.tagName == 'node']
            if sorted(kids) != sorted(want_children):
                base['children_reported'] = kids
                base['children_expected'] = sorted(want_children)
                ctx.report(classify_children(path, kids, want_children),
                           'Introspect on %s lists children %r, exported paths imply %r' % (
                               path, sorted(kids), sorted(want_children)), base, case)
                return False
            ifs = {n.getAttribute('name') for n in root.childNodes if n.nodeType == n.ELEMENT_NODE and n.tagName == 'interface'}
            want_ifs = set()
            if path in exported:
                want_ifs = {'org.verif.c16.A'} | ({'org.verif.c16.B'} if exported[path] == 'AB' else set())
                if DECLARE_MANAGER[0]:
                    want_ifs |= {'org.verif.c16.L', 'org.freedesktop.DBus.ObjectManager'}
            if not want_ifs <= ifs or (path not in exported and ifs):
                ctx.report('introspect-interfaces', 'Introspect on %s shows interfaces %r, expected %r' % (
                    path, sorted(ifs), sorted(want_ifs)), base, case)
                return False
            if want_children and any(c2 in want_children for c2 in ('b', 'bc')):
                ctx.count('prefix_sibling_configurations')
        # --- GetManagedObjects
        serial, msgs = world.call(path, 'GetManagedObjects', 'org.freedesktop.DBus.ObjectManager')
        ctx.count('queries')
        rep = [m for m in msgs if m.fields.get('reply_serial') == serial]
        if len(rep) != 1:
            ctx.report('reply-count', 'GetManagedObjects on %s got %d replies' % (path, len(rep)), base, case)
            return False
        m = rep[0]
        if path not in exported:
            if m.mtype != RM.ERROR or m.fields.get('error_name') != UNKNOWN_OBJECT:
                ctx.report('unexported-answered', 'GetManagedObjects on unexported %s answered %r' % (
                    path, m.fields.get('error_name') or m.body), base, case)
                return False
        else:
            if m.mtype != RM.METHOD_RETURN or m.fields.get('signature') != 'a{oa{sa{sv}}}':
                ctx.report('managed-failed', 'GetManagedObjects on %s failed: %r' % (path, m.body), base, case)
                return False
            got = m.body[0]
            want = beneath(path, exported)
            if set(got) != want:
                base['reported'] = sorted(got)
                base['expected'] = sorted(want)
                ctx.report(classify_managed(path, set(got), want),
                           'GetManagedObjects on %s reports %r, exported strictly beneath: %r' % (
                               path, sorted(got), sorted(want)), base, case)
                return False
            for p, ifs in got.items():
                want_props = {'org.verif.c16.A': {'Name': world.names.get(p, 'name-of-' + p)}}
                if exported[p] == 'AB':
                    want_props['org.verif.c16.B'] = {'Count': world.counts.get(p, 5)}
                if DECLARE_MANAGER[0]:
                    want_props['org.verif.c16.L'] = {}
                for iname, props in want_props.items():
                    if ifs.get(iname) != props:
                        ctx.report('managed-content', 'GetManagedObjects entry %s lacks interface/readable properties: '
                                   '%r vs %r' % (p, ifs.get(iname), props), base, case)
                        return False
                if 'Secret' in ifs.get('org.verif.c16.A', {}):
                    ctx.report('managed-write-only', 'write-only property revealed by GetManagedObjects', base, case)
                    return False
    ctx.count('states_checked')
    return True


def classify_children(path, kids, want):
    return None


def classify_managed(path, got, want):
    return None


def apply_op(ctx, world, op, hist, case):
    kind, path = op[0], op[1]
    world.peer.take()
    if kind == 'export':
        objkind = op[2]
        probe = {'serial': None}

        def on_added(kind_, payload):
            # an in-process peer reacts to the announcement at once: what is announced is there
            if kind_ == 'write' and b'InterfacesAdded' in payload and probe['serial'] is None:
                world.serial += 1
                probe['serial'] = world.serial
                world.peer.ep.feed(RM.build(RM.METHOD_CALL, world.serial, {'path': path, 'member': 'Ping',
                                                                            'interface': 'org.verif.c16.A',
                                                                            'sender': ':1.50'}))
        if len(hist) % 2:
            world.peer.ep.t.on_event = on_added
        try:
            if DECLARE_MANAGER[0]:
                obj = (ObjABM if objkind == 'AB' else ObjAM)(path)
                ctx.count('exported_objects_declaring_the_manager_interface')
            else:
                obj = (ObjAB if objkind == 'AB' else ObjA)(path)
            world.conn.exportObject(obj)
        except Exception as e:
            ctx.report('export-raised', 'constructing / exporting a %s object at %s raised %r' % (objkind, path, e),
                       {'history': hist, 'op': list(op)}, case)
            return False
        finally:
            world.peer.ep.t.on_event = None
        world.exported[path] = objkind
        world.objs[path] = obj
        world.names.pop(path, None)
        world.counts.pop(path, None)
    else:
        try:
            world.conn.unexportObject(path)
        except Exception as e:
            ctx.report('unexport-raised', 'unexporting %s raised %r' % (path, e), {'history': hist, 'op': list(op)}, case)
            return False
        del world.exported[path]
        world.objs.pop(path, None)
        world.names.pop(path, None)
        world.counts.pop(path, None)
    written = world.peer.take()
    if kind == 'export' and probe['serial'] is not None:
        rep = [m for m in written if m.fields.get('reply_serial') == probe['serial']]
        ctx.count('announcement_probes')
        if len(rep) != 1 or rep[0].mtype != RM.METHOD_RETURN or rep[0].body != ['pong from ' + path]:
            ctx.report('announced-before-visible', 'a call to %s made the moment its InterfacesAdded signal was written was '
                       'answered %r' % (path, [(m.mtype, m.fields.get('error_name'), m.body) for m in rep]),
                       {'history': hist, 'op': list(op)}, case)
            return False
    sigs = [m for m in written if m.mtype == RM.SIGNAL]
    ctx.count('evaluations')
    ctx.count('steps')
    base = {'history': hist, 'op': list(op), 'signals': [(m.fields.get('member'), m.fields.get('path'), repr(m.body)[:200])
                                                          for m in sigs]}
    want_member = 'InterfacesAdded' if kind == 'export' else 'InterfacesRemoved'
    good = [m for m in sigs if m.fields.get('member') == want_member
            and m.fields.get('interface') == 'org.freedesktop.DBus.ObjectManager']
    if len(sigs) != 1 or len(good) != 1:
        ctx.report('announce-count', '%s of %s announced by %d signals (%r)' % (kind, path, len(sigs),
                                                                               [s[0] for s in base['signals']]), base, case)
        return False
    m = good[0]
    ifs_want = {'org.verif.c16.A'} | ({'org.verif.c16.B'} if op[2:] == ('AB',) or (kind != 'export' and op[2] == 'AB') else set())
    if DECLARE_MANAGER[0]:
        ifs_want |= {'org.verif.c16.L'}
    if kind == 'export':
        ok = (m.fields.get('signature') == 'sa{sa{sv}}' or m.fields.get('signature') == 'oa{sa{sv}}') and \
            m.body[0] == path and ifs_want <= set(m.body[1])
    else:
        ok = m.body[0] == path and ifs_want <= set(m.body[1])
    if not ok:
        ctx.report('announce-content', '%s signal for %s names %r' % (want_member, path, repr(m.body)[:200]), base, case)
        return False
    return True


def ops_from(exported):
    ops = []
    for p in POOL:
        if p in exported:
            ops.append(('unexport', p, exported[p]))
            ops.append(('export', p, 'AB' if exported[p] == 'A' else 'A'))     # re-export: replaces the object
        else:
            ops.append(('export', p, 'A' if (len(p) % 2) else 'AB'))
    return ops


def run_history(ctx, ops, check_every, case):
    world = World()
    hist = []
    for i, op in enumerate(ops):
        hist.append(list(op))
        if not apply_op(ctx, world, op, hist, case):
            return False
        if check_every or i == len(ops) - 1:
            if not check_state(ctx, world, hist, case):
                return False
        # a property of an exported object changes afterwards (assigned locally, or Set remotely): what the tree reports
        # follows the object, not what it looked like when it was exported
        if world.objs and (i + len(ops)) % 3 == 0:
            p_ = sorted(world.objs)[(i * 7 + len(hist)) % len(world.objs)]
            new_name = 'renamed-%d-of-%s' % (i, p_)
            if i % 2:
                world.objs[p_].name = new_name
            else:
                world.objs[p_].name = 'about-to-be-set'      # Name is read-only remotely: change Count/Name locally, and
                world.objs[p_].name = new_name                # twice in a row
            if world.exported[p_] == 'AB':
                world.call(p_, 'Set', 'org.freedesktop.DBus.Properties', 'ssv',
                           ['org.verif.c16.B', 'Count', RV('i', 40 + i)])
                world.counts[p_] = 40 + i
            world.names[p_] = new_name
            world.peer.take()
            hist.append(['property-change', p_, new_name])
            ctx.count('property_changes_after_export')
            if not check_state(ctx, world, hist, case):
                return False
    ctx.distinct('nontrivial_cases', tuple(tuple(o) for o in ops))
    ctx.distinct('states', tuple(sorted(world.exported.items())))
    return True


def enumerate_histories(length):
    """All histories of exactly `length` ops (an op is valid w.r.t. the exported set it meets)."""
    def rec(exported, k):
        if k == 0:
            yield []
            return
        for op in ops_from(exported):
            if op[0] == 'export' and op[1] in exported:
                continue            # re-exports are visited by the random part, keep the enumeration small
            nxt = dict(exported)
            if op[0] == 'export':
                nxt[op[1]] = op[2]
            else:
                del nxt[op[1]]
            for rest in rec(nxt, k - 1):
                yield [op] + rest
    return rec({}, length)


def run(ctx):
    global POOL, OUTSIDE
    si, sn = ctx.shard or (0, 1)
    quick = ctx.tier == 'quick'
    L = 3 if quick else 4
    ctx.rule = ('all export/unexport histories of length <= %d over the path pool %r (every path of the pool and 3 outside '
                'queried after every step: ordinary call, Introspect, GetManagedObjects), length %d with the queries after '
                'the last step, every subset of the pool as exported set, random histories <= 14 incl. re-exports; '
                'InterfacesAdded/Removed counted per step. distinct_nontrivial = distinct histories' % (L, POOL, L + 1))
    ctx.budget(55 if quick else 540)
    n = 0
    stop = False
    for ln in range(1, L + 2):
        for ops in enumerate_histories(ln):
            n += 1
            if n % sn != si:
                continue
            if ln == L + 1 and quick and n % 4:
                continue
            if not run_history(ctx, ops, ln <= L, {'kind': 'hist', 'ops': [list(o) for o in ops], 'every': ln <= L}):
                pass
            if ctx.stop_early() or (n % 50 == 0 and ctx.out_of_time()):
                stop = True
                break
        if stop:
            break
    ctx.exhaustive = not ctx.truncated
    ctx.note('exhaustive_bound', {'pool': POOL, 'max_len_all_steps_checked': L, 'histories': n})
    # every subset of the pool as exported set
    k = 0
    for mask in range(1 << len(POOL)):
        k += 1
        if k % sn != si:
            continue
        subset = [POOL[i] for i in range(len(POOL)) if mask >> i & 1]
        r = random.Random(mask)
        r.shuffle(subset)
        ops = [('export', p, r.choice(['A', 'AB'])) for p in subset]
        if ops:
            run_history(ctx, ops, False, {'kind': 'hist', 'ops': [list(o) for o in ops], 'every': False})
        if ctx.stop_early():
            break
    ctx.count('subsets_as_state', k // sn)
    # random long histories with re-exports
    for i in range((60 if quick else 1500) // sn):
        r = random.Random('%s/c16rand/%s' % (ctx.seed, i * sn + si))
        exported = {}
        ops = []
        for _ in range(r.randint(5, 14)):
            op = r.choice(ops_from(exported))
            ops.append(op)
            if op[0] == 'export':
                exported[op[1]] = op[2]
            else:
                del exported[op[1]]
        DECLARE_MANAGER[0] = i % 2 == 1
        try:
            run_history(ctx, ops, True, {'kind': 'hist', 'ops': [list(o) for o in ops], 'every': True,
                                         'declare_manager': DECLARE_MANAGER[0]})
        finally:
            DECLARE_MANAGER[0] = False
        ctx.count('random_histories')
        if ctx.stop_early():
            break
    # a second pool: path components that begin with characters of their parent's path, and realistic long names
    saved_pool = (POOL, OUTSIDE)
    POOL = ['/a', '/a/a', '/a/ab', '/a/a/a', '/org', '/org/go', '/org/go/Thing', '/org/example/Root/toolbar',
            '/org/example/Root', '/a/b', '/a/b/ba/d']
    OUTSIDE = ['/a/aa', '/org/g', '/o']
    try:
        for i in range((40 if quick else 800) // sn):
            r = random.Random('%s/c16pool2/%s' % (ctx.seed, i * sn + si))
            exported = {}
            ops = []
            for _ in range(r.randint(3, 9)):
                op = r.choice(ops_from(exported))
                ops.append(op)
                if op[0] == 'export':
                    exported[op[1]] = op[2]
                else:
                    del exported[op[1]]
            run_history(ctx, ops, r.random() < 0.3, {'kind': 'hist', 'ops': [list(o) for o in ops], 'every': True,
                                                     'pool': 2})
            ctx.count('second_pool_histories')
            if ctx.stop_early():
                break
    finally:
        POOL, OUTSIDE = saved_pool
    ctx.sample({'history': [['export', '/a/b', 'A'], ['export', '/a/bc', 'AB'], ['unexport', '/a/b', 'A']],
                'queries_after_each_step': POOL + OUTSIDE})
    ctx.require(ctx.counters.get('states_checked', 0) > 100, 'too few states checked')
    ctx.require(ctx.counters.get('prefix_sibling_configurations', 0) > 0, 'prefix-sharing sibling configuration never reached')


def replay(ctx, rp):
    global POOL, OUTSIDE
    case = rp['case']
    if case.get('pool') == 2:
        POOL = ['/a', '/a/a', '/a/ab', '/a/a/a', '/org', '/org/go', '/org/go/Thing', '/org/example/Root/toolbar',
                '/org/example/Root', '/a/b', '/a/b/ba/d']
        OUTSIDE = ['/a/aa', '/org/g', '/o']
    DECLARE_MANAGER[0] = bool(case.get('declare_manager'))
    run_history(ctx, [tuple(o) for o in case['ops']], case['every'], case)
