"""
C02 — bytes are exactly the DBus wire format, in both directions.

Direction A: real marshal() -> strict reference decoder -> value compare -> reference
             re-encode must be byte-identical (given the typed tree incl. the variant
             signatures txdbus chose, the DBus encoding is unique).
Direction B: reference-encoded bytes (foreign encoder: any variant content, both orders,
             all offsets) -> real unmarshal() -> value compare.
Alignment table: every (type code, offset 0..15, byte order), exhaustive.
"""
from harness import codec_cases as CC
from harness import gen, ref_codec as R, ref_grammar as G, selfcheck
from txdbus import marshal as M

PROP = 'C02'
LEVEL = 'exploration'
SHARDS = {'thorough': 16}


def dir_a(ctx, sig, tvals, little, off, rng, case):
    types = G.split_signature(sig)
    fds = []
    py = [gen.py_input(ct, tv, rng, fds, marshal_mod=M) for ct, tv in zip(types, tvals)]
    expect = gen.fd_to_index([gen.normalise(ct, v) for ct, v in zip(types, py)])
    ctx.count('evaluations')
    ctx.count('dir_a')
    out_fds = []
    try:
        n, chunks = M.marshal(sig, py, off, little, out_fds)
    except Exception as e:
        ctx.report(None, 'marshal(%r) raised %r on conforming values' % (sig, e),
                   {'sig': sig, 'values': py, 'little': little, 'offset': off}, case)
        return
    data = b''.join(chunks)
    w = {'sig': sig, 'values': py, 'little': little, 'offset': off, 'bytes': data}
    buf = b'\xEE' * off + data
    try:
        typed, end = R.decode(sig, buf, off, little, strict=True)
    except R.CodecError as e:
        ctx.report('not-wire-format', 'bytes produced for %r (offset %d, %s-endian) are not valid DBus encoding: %s' % (
            sig, off, 'little' if little else 'big', e), w, case)
        return
    if end != len(buf):
        ctx.report('not-wire-format', 'bytes produced for %r have %d surplus bytes' % (sig, len(buf) - end), w, case)
        return
    plain = R.plain_list(sig, typed)
    if not R.strict_type_eq(plain, expect):
        w['ref_decoded'] = plain
        w['expected'] = expect
        ctx.report('encodes-other-value', 'bytes produced for %r decode (by the reference) to another value' % sig,
                   w, case)
        return
    again = R.encode(sig, typed, off, little)
    if again != data:
        w['reference_bytes'] = again
        ctx.report('not-byte-identical', 'bytes produced for %r differ from the unique DBus encoding' % sig, w, case)
        return
    ctx.count('byte_identical')
    if any(c in sig for c in 'a({v'):
        ctx.distinct('nontrivial_cases', ('A', gen.shape_of(sig), little, off % 8))


def dir_b(ctx, sig, tvals, little, off, case):
    ctx.count('evaluations')
    ctx.count('dir_b')
    data = R.encode(sig, tvals, off, little)
    buf = b'\xEE' * off + data
    nfd = 1 << 16
    w = {'sig': sig, 'typed': repr(tvals)[:600], 'little': little, 'offset': off, 'bytes': data}
    expect = R.plain_list(sig, tvals)

    class Fds:
        """out-of-band list: descriptor i is the token i"""

        def __getitem__(self, i):
            if 0 <= i < nfd:
                return i
            raise IndexError(i)

        def __len__(self):
            return nfd
    try:
        n, vals = M.unmarshal(sig, buf, off, little, Fds())
    except Exception as e:
        ctx.report(None, 'unmarshal(%r) raised %r on a conformant foreign encoding' % (sig, e), w, case)
        return
    if n != len(data):
        ctx.report('decoder-count-mismatch', 'unmarshal(%r) consumed %d of %d bytes' % (sig, n, len(data)), w, case)
    if not R.strict_type_eq(vals, expect):
        w['expected'] = expect
        w['out'] = vals
        ctx.report('decodes-other-value', 'foreign encoding of %r decoded to another value' % sig, w, case)
        return
    if any(c in sig for c in 'a({v'):
        ctx.distinct('nontrivial_cases', ('B', gen.shape_of(sig), little, off % 8))


def alignment_table(ctx):
    single = {'a': ['ay', 'aq', 'ai', 'ax', 'as', 'a(y)', 'av'], '(': ['(y)', '(yx)'], '{': ['a{yy}', 'a{yx}'],
              'v': ['v']}
    n = 0
    for code in 'ybnqiuxtdsogva({h':
        for sig in single.get(code, [code]):
            for off in range(16):
                for little in (True, False):
                    r = CC.case_rng(0, 'align', '%s/%d/%s' % (sig, off, little))
                    g = gen.Gen(r, max_depth=1, max_arr=2, allow_h=True)
                    for lead in ('', 'y'):
                        s = lead + sig
                        tv = g.values(s)
                        case = {'stream': 'align', 'sig': s, 'off': off, 'little': little}
                        dir_a(ctx, s, tv, little, off, r, case)
                        if 'h' not in s:
                            dir_b(ctx, s, tv, little, off, case)
                        n += 1
    ctx.count('alignment_cases', n)
    ctx.note('alignment_table', {'type_codes': 17, 'offsets': 16, 'byte_orders': 2, 'exhaustive': True})


# Python strings that are not Unicode text (lone surrogates - what os.fsdecode() makes of a non-UTF-8 file name): they
# have no encoding as a DBus STRING.  Refusing them is what the unchanged code does and is not judged; but whatever
# bytes ARE produced for one must still be an encoding the specification defines (valid UTF-8 in a STRING).
NOT_TEXT = ['caf\udce9.txt', '\udc80', 'x\udcff', '\ud800', 'a\udfffb', '\udbff\udbff', 'ok\udc80\udc81ok']
NOT_TEXT_SHAPES = [('s', lambda t: [t]), ('as', lambda t: [['fine', t]]), ('v', lambda t: [t]), ('(ys)', lambda t: [[1, t]]),
                   ('a{ss}', lambda t: [{t: 'v'}]), ('a{sv}', lambda t: [{'k': t}]), ('av', lambda t: [[1, t]]),
                   ('(s(sas))', lambda t: [['a', ['b', [t]]]])]


def unrepresentable_text(ctx):
    for t in NOT_TEXT:
        for sig, mk in NOT_TEXT_SHAPES:
            for little in (True, False):
                for off in (0, 3):
                    case = {'stream': 'not-text', 'sig': sig, 'text': t.encode('utf-8', 'surrogatepass').hex()}
                    ctx.count('evaluations')
                    try:
                        n, chunks = M.marshal(sig, mk(t), off, little)
                    except Exception:
                        ctx.count('not_text_refused')
                        continue
                    data = b''.join(chunks)
                    ctx.count('not_text_encoded')
                    try:
                        R.decode(sig, b'\xEE' * off + data, off, little, strict=True)
                    except R.CodecError as e:
                        ctx.report('not-wire-format', 'bytes produced for a %r holding a str that is not Unicode text are not '
                                   'valid DBus encoding: %s' % (sig, e), dict(case, bytes=data, little=little, offset=off), case)


class _Fd:
    """A descriptor stand-in; equal ones (the same descriptor number given twice) compare equal, like integers do."""

    def __init__(self, n):
        self.n = n

    def __eq__(self, o):
        return isinstance(o, _Fd) and o.n == self.n

    def __hash__(self):
        return hash(('fd', self.n))

    def __repr__(self):
        return 'fd%d' % self.n

    def __bool__(self):
        return self.n != 0


REPEATS = ['ABA', 'AAB', 'ABB', 'ABAB', 'ABCA', 'ABCB', 'AABA', 'ABCABC', 'AAAA', 'ABBA']


def repeated_descriptors(ctx):
    """One descriptor given in several 'h' positions of one message: a UNIX_FD is written as the index of that
    descriptor in the out-of-band list, so every index read back from the bytes must designate the descriptor given at that
    position (whether the list then holds it once or once per position is the encoder's choice and not judged)."""
    for pat in REPEATS:
        fds = {c: _Fd(k) for k, c in enumerate(sorted(set(pat)))}
        vals = [fds[c] for c in pat]
        for shape in ('flat', 'array', 'struct', 'mixed'):
            if shape == 'flat':
                sig, py = 'h' * len(pat), list(vals)
                flat = lambda tv: list(tv)
            elif shape == 'array':
                sig, py = 'ah', [list(vals)]
                flat = lambda tv: list(tv[0])
            elif shape == 'struct':
                sig, py = '(' + 'h' * len(pat) + ')', [tuple(vals)]
                flat = lambda tv: list(tv[0])
            else:
                sig, py = 'hsah', [vals[0], 'x', list(vals[1:])]
                flat = lambda tv: [tv[0]] + list(tv[2])
            for little in (True, False):
                case = {'stream': 'repeated-fds', 'pattern': pat, 'shape': shape, 'little': little}
                ctx.count('evaluations')
                ctx.count('repeated_descriptor_cases')
                out_fds = []
                try:
                    n, chunks = M.marshal(sig, py, 0, little, out_fds)
                    typed, end = R.decode(sig, b''.join(chunks), 0, little, strict=True)
                except Exception as e:
                    ctx.report(None, 'marshal(%r) with a repeated descriptor: %r' % (sig, e), case, case)
                    continue
                idxs = flat(R.plain_list(sig, typed))
                w = dict(case, given=repr(vals), indexes=idxs, out_of_band_list=repr(out_fds))
                if any((not isinstance(i, int)) or i >= len(out_fds) or out_fds[i] != v for i, v in zip(idxs, vals)):
                    ctx.report('fd-index-designates-other-descriptor', 'descriptors %r were encoded as indexes %r into the '
                               'out-of-band list %r' % (vals, idxs, out_fds), w, case)


def natural_variants(ctx, seed, n, si, sn):
    """Variants whose content is a natural Python container with elements that share a base type but not a class (a bool
    next to an int, an ObjectPath next to a str ...), in any order: the bytes - read by the reference decoder - carry a
    signature and a content that say what was given (variants carry the signature of their content)."""
    from checks.c19 import mixed_int_family, mixed_str_family
    import random as _random

    def plain_in(v):
        if isinstance(v, (list, tuple)):
            return [plain_in(x) for x in v]
        if isinstance(v, dict):
            return {k: plain_in(x) for k, x in v.items()}
        return v
    for i in range(n):
        idx = i * sn + si
        r = _random.Random('%s/c02natural/%s' % (seed, idx))
        fam = mixed_int_family(r) if r.random() < 0.6 else mixed_str_family(r)
        r.shuffle(fam)
        content = fam if r.random() < 0.5 else {'k%d' % j: x for j, x in enumerate(fam)}
        if r.random() < 0.3:
            content = {'nested': content, 'n': 5}
        little, off = r.random() < 0.5, r.choice([0, 1, 4, 7])
        case = {'stream': 'natural', 'idx': idx}
        ctx.count('evaluations')
        ctx.count('natural_variant_cases')
        try:
            nbytes, chunks = M.marshal('v', [content], off, little)
        except Exception as e:
            ctx.report(None, 'marshal of a natural variant content %r raised %r' % (content, e), {'value': repr(content)}, case)
            continue
        data = b''.join(chunks)
        w = {'value': repr(content), 'little': little, 'offset': off, 'bytes': data}
        try:
            typed, end = R.decode('v', b'\xEE' * off + data, off, little, strict=True)
        except R.CodecError as e:
            ctx.report('not-wire-format', 'bytes produced for the variant content %r are not valid DBus encoding: %s' % (
                content, e), w, case)
            continue
        got = R.plain_list('v', typed)[0]
        if not R.plain_eq(got, plain_in(content)):
            w['reference_reads'] = repr(got)
            w['wire_signature'] = typed[0].sig
            ctx.report('encodes-other-value', 'the variant written for %r carries signature %r and reads as %r' % (
                content, typed[0].sig, got), w, case)


def byte_strings_as_arrays(ctx):
    """A bytearray (or bytes) handed in where an array of some numeric type is declared: iterating it yields integers, so
    it is a value of 'an', 'au', 'ad', ... as much as of 'ay' - and is encoded as THAT array (element size, alignment
    padding, byte order), not as a run of bytes."""
    data = [0, 1, 2, 250, 7]
    for et in 'ynqiuxtdb':
        for ctor in (bytearray, bytes):
            for little in (True, False):
                for off in (0, 4, 5):
                    for wrap_sig, wrap in (('a%s', lambda v: [v]), ('ya%s', lambda v: [9, v]), ('(a%s)s', lambda v: [(v,), 'x'])):
                        sig = wrap_sig % et
                        case = {'stream': 'byte-strings', 'sig': sig, 'ctor': ctor.__name__}
                        ctx.count('evaluations')
                        ctx.count('byte_string_array_cases')
                        try:
                            n, chunks = M.marshal(sig, wrap(ctor(data)), off, little)
                        except Exception:
                            ctx.count('byte_string_array_refused')      # refusing is not judged
                            continue
                        raw = b''.join(chunks)
                        w = {'sig': sig, 'given': '%s(%r)' % (ctor.__name__, data), 'little': little, 'offset': off, 'bytes': raw}
                        try:
                            typed, end = R.decode(sig, b'\xEE' * off + raw, off, little, strict=True)
                        except R.CodecError as e:
                            ctx.report('not-wire-format', 'bytes produced for %r given a %s are not valid DBus encoding: %s' % (
                                sig, ctor.__name__, e), w, case)
                            continue
                        arr = [x for x in R.plain_list(sig, typed) if isinstance(x, list)]
                        arr = arr[0][0] if arr and arr[0] and isinstance(arr[0][0], list) else (arr[0] if arr else None)
                        want = [bool(x) for x in data] if et == 'b' else [float(x) for x in data] if et == 'd' else data
                        if arr != want or n != len(raw):
                            w['reference_reads'] = repr(arr)
                            ctx.report('encodes-other-value', 'bytes produced for %r given %s(%r) read as %r' % (
                                sig, ctor.__name__, data, arr), w, case)


def foreign_case(seed, idx):
    r = CC.case_rng(seed, 'foreign', idx)
    g = gen.Gen(r, max_depth=r.choice([2, 3, 4]), big=(r.random() < 0.1), free_variants=True)
    k = r.random()
    if k < 0.06:
        sig = g.deep_signature()
        g.max_arr = 2
    else:
        sig = g.signature()
    vals = g.values(sig)
    return sig, vals, r.random() < 0.5, r.choice([0, 1, 2, 3, 4, 5, 6, 7, r.randint(8, 40)])


def run(ctx):
    gen.LOOSE_BOOL = True
    ctx.note('reference_selfcheck_vectors', selfcheck.check_codec())
    ctx.rule = ('C01 case space in both directions against harness/ref_codec.py: A = real marshal output strictly decoded '
                'and re-encoded byte-identically; B = reference encodings (any variant content) decoded by real '
                'unmarshal; alignment table 17 codes x 16 offsets x 2 orders exhaustive. distinct_nontrivial = distinct '
                '(direction, alignment-shape, byte order, offset mod 8) with a container')
    alignment_table(ctx)
    unrepresentable_text(ctx)
    repeated_descriptors(ctx)
    byte_strings_as_arrays(ctx)
    ctx.budget(30 if ctx.tier == 'quick' else 420)
    n = 0
    for idx, sig, combos in CC.enumerated(ctx.tier, ctx.shard):
        for little, off in combos:
            r = CC.case_rng(ctx.seed, 'enum', '%d/%s/%d' % (idx, little, off))
            tv = gen.Gen(r, max_depth=2).values(sig)
            case = {'stream': 'enum', 'sig': sig, 'idx': idx, 'little': little, 'off': off}
            dir_a(ctx, sig, tv, little, off, r, case)
            r2 = CC.case_rng(ctx.seed, 'enumB', '%d/%s/%d' % (idx, little, off))
            tv2 = gen.Gen(r2, max_depth=2, free_variants=True).values(sig)
            dir_b(ctx, sig, tv2, little, off, dict(case, stream='enumB'))
            n += 1
        if ctx.stop_early() or (n % 256 == 0 and ctx.out_of_time()):
            break
    ctx.exhaustive = not ctx.truncated
    ctx.count('enumerated_cases', n)
    si, sn = ctx.shard or (0, 1)
    nrand = 4000 if ctx.tier == 'quick' else 300000 // sn
    ctx.budget(25 if ctx.tier == 'quick' else 300)
    for i in range(nrand):
        idx = i * sn + si
        r, sig, tv, little, off = CC.random_case(ctx.seed, idx, big=True)
        dir_a(ctx, sig, tv, little, off, r, {'stream': 'rand', 'idx': idx})
        sig2, tv2, little2, off2 = foreign_case(ctx.seed, idx)
        dir_b(ctx, sig2, tv2, little2, off2, {'stream': 'foreign', 'idx': idx})
        if i < 2:
            ctx.sample({'sig': sig2, 'little': little2, 'offset': off2,
                        'reference_bytes': R.encode(sig2, tv2, off2, little2).hex()[:200]})
        if ctx.stop_early() or (i % 128 == 0 and ctx.out_of_time()):
            break
    natural_variants(ctx, ctx.seed, 800 if ctx.tier == 'quick' else 30000 // sn, si, sn)
    # whole messages: header fields are (code, variant) entries, so the wire format of a message depends on the same
    # encoder - including when a parsed message is written out again, which is what passes through the built-in bus
    from checks.c03 import check_foreign
    for k in range(400 if ctx.tier == 'quick' else 4000):
        check_foreign(ctx, ctx.seed, 500000 + k * (ctx.shard or (0, 1))[1] + (ctx.shard or (0, 1))[0])
    ctx.count('whole_messages_reserialised', ctx.counters.get('reserialised', 0))
    ctx.require(ctx.counters.get('byte_identical', 0) > 500, 'too few byte-identical comparisons')
    ctx.require(ctx.counters.get('dir_b', 0) > 500, 'too few foreign decodes')


def replay(ctx, rp):
    selfcheck.check_codec()
    case = rp['case']
    seed = rp.get('seed', 0)
    st = case['stream']
    if st in ('enum', 'enumB'):
        key = '%d/%s/%d' % (case['idx'], case['little'], case['off'])
        if st == 'enum':
            r = CC.case_rng(seed, 'enum', key)
            dir_a(ctx, case['sig'], gen.Gen(r, max_depth=2).values(case['sig']), case['little'], case['off'], r, case)
        else:
            r = CC.case_rng(seed, 'enumB', key)
            dir_b(ctx, case['sig'], gen.Gen(r, max_depth=2, free_variants=True).values(case['sig']),
                  case['little'], case['off'], case)
    elif st == 'rand':
        r, sig, tv, little, off = CC.random_case(seed, case['idx'], big=True)
        dir_a(ctx, sig, tv, little, off, r, case)
    elif st == 'foreign':
        sig, tv, little, off = foreign_case(seed, case['idx'])
        dir_b(ctx, sig, tv, little, off, case)
    elif st == 'byte-strings':
        byte_strings_as_arrays(ctx)
    elif st == 'natural':
        natural_variants(ctx, seed, 1, case['idx'], 10**9)
    elif st == 'repeated-fds':
        repeated_descriptors(ctx)
    elif st == 'not-text':
        unrepresentable_text(ctx)
    else:
        alignment_table(ctx)
