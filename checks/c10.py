"""
C10 — every call to an exported object gets exactly one correctly addressed reply.

A real DBusClientConnection (simulated transport, checker as peer) exports objects of freshly
generated classes; method calls arrive as reference-built bytes; replies are parsed from the
wire by the strict reference parser.  Oracle: a table-lookup reference dispatcher.
"""
import itertools
import random

from twisted.internet import defer

from harness import clientfix, gen, ref_codec as R, ref_grammar as G, ref_message as RM
from txdbus import interface as I
from txdbus import marshal as M
from txdbus import objects as O

PROP = 'C10'
LEVEL = 'exploration'
SHARDS = {'thorough': 16}

MEMBERS = ['Alpha', 'Beta', 'Gamma', 'Delta', 'Ping', 'Introspect', 'GetManagedObjects']   # the last three collide
# with members of the standard interfaces every object answers itself: only a call NAMING that standard interface is theirs
SIGS_IN = ['', 's', 'i', 'si', 'as', '(is)', 'a{ss}', 'sv', 'ss', 'ai', 'sas', 'x', 'sd']
SIGS_OUT = ['', 's', 'i', 'si', 'as', '(is)', 'a{ss}', 'v', 'ss', 'ai', 'isas', 'sx']
SENDER = ':1.77'
PATHS = ['/obj', '/obj/a', '/other', '/']

UNKNOWN_OBJECT = 'org.freedesktop.DBus.Error.UnknownObject'
UNKNOWN_METHOD = 'org.freedesktop.DBus.Error.UnknownMethod'
INVALID_ARGS = 'org.freedesktop.DBus.Error.InvalidArgs'

LOG = []          # (impl id, args, caller) appended by generated implementations
SCRIPT = {}       # impl id -> list of outcomes to produce, consumed per invocation


class _Outer:
    class VerifError(Exception):
        """Same class NAME as the module-level one, defined inside another class."""


def _local_error_class():
    class VerifError(Exception):
        """Same class name, local to a function."""
    return VerifError


def err_class(token):
    """org.txdbus.PythonException.<Class>: the class name, wherever the class is defined."""
    return (VerifError, _Outer.VerifError, _local_error_class())[len(token) % 3]


class VerifError(Exception):
    pass


def make_impl(name, impl_id, nargs, wants_caller, spare=None):
    """A method function with an explicit positional signature (txdbus inspects the last name).  A third of the
    implementations also have a defaulted Python parameter that no DBus argument fills, in front of dbusCaller: it
    must keep its default (the caller's name is not one of the decoded arguments)."""
    if spare is None:
        spare = (len(str(impl_id)) + nargs) % 3 == 0
    params = ['self'] + ['a%d' % i for i in range(nargs)] + (['spare_="<default>"'] if spare else []) + (
        ['dbusCaller=None'] if wants_caller else [])
    args = '[%s]' % ', '.join('a%d' % i for i in range(nargs))
    if spare:
        args += ' + ([] if spare_ == "<default>" else ["<spare parameter filled>", spare_])'
    src = 'def %s(%s):\n    return _enter(%r, %s, %s)\n' % (
        name, ', '.join(params), impl_id, args, 'dbusCaller' if wants_caller else '"<not asked>"')
    ns = {'_enter': enter}
    exec(src, ns)
    if spare:
        SPARE['made'] += 1
    return ns[name]


SPARE = {'made': 0}


CURRENT = {'plan': {}, 'used': None, 'holder': None}


def enter(impl_id, args, caller):
    """Body of every generated implementation: record the invocation, then act out the outcome planned for
    the call being delivered (delivery is synchronous, so a module-level 'current call' is exact)."""
    LOG.append((impl_id, args, caller))
    plan = CURRENT['plan'].get(impl_id)
    CURRENT['used'] = impl_id
    if plan is None:
        return None
    entry = plan[0]
    kind = entry[0]
    if kind == 'value':
        return entry[1]
    if kind == 'raise':
        raise entry[1]
    if kind in ('deferred-value', 'deferred-fail'):
        d = defer.Deferred()
        CURRENT['holder'].append((d, entry))
        return d
    raise RuntimeError(kind)


class Decl:
    """One generated exported class + instance."""

    def __init__(self, r, case_id, flip_wants=False, path='/obj', cname_suffix=''):
        self.r = r
        self.case_id = case_id
        self.ifaces = []       # [(name, {member: (sigIn, sigOut)})] in getInterfaces() order (derived first)
        self.impl = {}         # (iface, member) -> (impl id, wants_caller)
        n_if = r.choice([1, 2, 2, 3])
        levels = r.choice([1, 2]) if n_if > 1 else 1
        decl = []
        for k in range(n_if):
            name = 'org.verif.c10.C%s.I%d' % (case_id, k)
            members = {}
            for mname in r.sample(MEMBERS, r.randint(1, 3)):
                members[mname] = (r.choice(SIGS_IN), r.choice(SIGS_OUT))
            decl.append((name, members))
        # split interfaces over base / derived class
        cut = r.randint(1, n_if - 1) if levels == 2 else n_if
        base_ifs, derived_ifs = decl[:cut], decl[cut:]
        self.redeclared = None
        self.overridden = None
        if levels == 2 and r.random() < 0.3:
            # the derived class declares an interface NAME of its base class again, with other members / signatures: the
            # most derived declaration of a name is the object's interface of that name
            name0, old_members = base_ifs[0]
            members = {}
            for mname in r.sample(MEMBERS, r.randint(1, 3)):
                members[mname] = (r.choice(SIGS_IN), r.choice(SIGS_OUT))
            if old_members and r.random() < 0.7:
                m0 = sorted(old_members)[0]
                members[m0] = (r.choice([s_ for s_ in SIGS_IN if s_ != old_members[m0][0]]), r.choice(SIGS_OUT))
            derived_ifs = derived_ifs + [(name0, members)]
            decl = decl + [(name0, members)]
            self.redeclared = name0
        style = {}        # member -> 'dbus_' | 'deco'
        all_members = sorted({m for _, ms in decl for m in ms})
        for m in all_members:
            style[m] = r.choice(['dbus_', 'deco', 'deco_named'])
            if self.redeclared and any(n_ == self.redeclared and m in ms_ for n_, ms_ in decl):
                # members of a name that is declared twice are bound per (interface, member) by decorators only: a
                # dbus_<member> function would serve both declarations and leave "the implementation bound to ..." open
                style[m] = 'deco'
        self.style = style

        moved = []          # decorated bindings of base-class interfaces that live in the derived class

        def build_class(cname, base, ifs):
            attrs = {'dbusInterfaces': [
                I.DBusInterface(n, *[I.Method(m, arguments=si, returns=so) for m, (si, so) in ms.items()],
                                noRegister=True) for n, ms in ifs]}
            for n, ms in ifs:
                for m, (si, so) in ms.items():
                    nargs = len(G.split_signature(si))
                    if style[m] == 'dbus_':
                        # one dbus_<name> serves every interface declaring the member: argument counts must agree,
                        # so it takes *args-like maximum; generate only if not yet defined along the MRO
                        fname = 'dbus_' + m
                        if fname in attrs or hasattr(base, fname):
                            continue
                        counts = {len(G.split_signature(s_[0])) for _, ms2 in decl for mm, s_ in ms2.items() if mm == m}
                        if len(counts) != 1:
                            style[m] = 'deco'
                        else:
                            wants = (r.random() < 0.5) != flip_wants
                            impl_id = '%s.%s' % (cname, fname)
                            attrs[fname] = make_impl(fname, impl_id, nargs, wants)
                            for n2, ms2 in decl:
                                if m in ms2:
                                    self.impl[(n2, m)] = (impl_id, wants)
                            continue
                    if style[m] in ('deco', 'deco_named'):
                        fname = 'impl_%s_%s%s' % (n.replace('.', '_'), m, '_r' if (self.redeclared == n and base is not O.DBusObject) else '')
                        if style[m] == 'deco_named' and ('dbus_' + m) not in attrs and not hasattr(base, 'dbus_' + m):
                            # the decorated function for the first declaring interface is itself called dbus_<member>
                            fname = 'dbus_' + m
                        wants = (r.random() < 0.5) != flip_wants
                        if base is O.DBusObject and split_bindings and fname.startswith('impl_') and r.random() < 0.5:
                            # the interface is declared here, this member is bound by the derived class
                            moved.append((fname, n, m, nargs, wants))
                            continue
                        impl_id = '%s.%s' % (cname, fname)
                        attrs[fname] = O.dbusMethod(n, m)(make_impl(fname, impl_id, nargs, wants))
                        self.impl[(n, m)] = (impl_id, wants)
            if base is not O.DBusObject and not self.redeclared and r.random() < 0.5:
                # the derived class overrides an implementation that the base class bound with @dbusMethod, under the same
                # function name and WITHOUT repeating the decorator: ordinary method overriding - the override runs
                for (n0, m0), (impl0, wants0) in sorted(self.impl.items()):
                    f0 = impl0.split('.', 1)[1] if impl0 else None
                    if impl0 and impl0.startswith('Base') and f0.startswith('impl_') and f0 not in attrs:
                        nargs0 = len(G.split_signature(dict(base_ifs).get(n0, {}).get(m0, ('',))[0]))
                        impl_id = '%s.%s(override)' % (cname, f0)
                        attrs[f0] = make_impl(f0, impl_id, nargs0, wants0)
                        self.impl[(n0, m0)] = (impl_id, wants0)
                        self.overridden = (n0, m0)
                        break
            if base is not O.DBusObject:
                for fname, n, m, nargs, wants in moved:
                    impl_id = '%s.%s' % (cname, fname)
                    attrs[fname] = O.dbusMethod(n, m)(make_impl(fname, impl_id, nargs, wants))
                    self.impl[(n, m)] = (impl_id, wants)
            if base is O.DBusObject and isinstance(case_id, int) and case_id % 2:
                # an exported object may also be a container, and an empty one is falsy: dispatch must not care
                attrs['__len__'] = lambda self_: 0
            decorated = [k_ for k_, v_ in attrs.items() if callable(v_) and hasattr(v_, '_dbusMethod')]
            if isinstance(case_id, int) and case_id % 5 == 3 and decorated:
                # the decorator-bound implementations live in a plain helper class (not a DBusObject) that the exported
                # class inherits from, before or after its DBusObject base
                Mixin = type(cname + 'Mixin', (object,), {k_: attrs.pop(k_) for k_ in decorated})
                self.mixins = getattr(self, 'mixins', 0) + 1
                # (behind a DBusObject base only where that base is DBusObject itself: listed behind a base CLASS of the
                # hierarchy the helper would come after that class in the MRO, and the base's bindings would rightly win)
                return type(cname, (Mixin, base) if (case_id % 2 or base is not O.DBusObject) else (base, Mixin), attrs)
            return type(cname, (base,), attrs)

        split_bindings = bool(derived_ifs) and r.random() < 0.5 and not self.redeclared
        Base = build_class('Base%s%s' % (case_id, cname_suffix), O.DBusObject, base_ifs)
        cls = Base
        if derived_ifs:
            cls = build_class('Derived%s%s' % (case_id, cname_suffix), Base, derived_ifs)
        self.split_bindings = split_bindings and bool(moved)
        self.cls = cls
        # getInterfaces() walks the MRO: derived class interfaces first, then base, then DBusObject's own
        self.ifaces = derived_ifs + base_ifs
        self.path = path
        # an instance of the BASE class may be in use before the derived class is first instantiated (whatever is
        # remembered per class on first use must not leak down the hierarchy)
        self.base_obj = Base('/only/base') if derived_ifs and r.random() < 0.5 else None
        self.obj = cls(self.path)
        # a dbus_ style member whose declaring interfaces were split so that no function got generated
        for n, ms in decl:
            for m in ms:
                if (n, m) not in self.impl:
                    self.impl[(n, m)] = None

    def lookup(self, path, iface, member, sig):
        """Reference dispatch: list of acceptable outcomes, each ('error', name) or ('dispatch', iface, member)."""
        if path != self.path:
            return [('error', UNKNOWN_OBJECT)]
        sig = sig or ''
        if iface is not None:
            for n, ms in self.ifaces:
                if n == iface:
                    if member not in ms:
                        return [('error', UNKNOWN_METHOD)]
                    if ms[member][0] != sig:
                        return [('error', INVALID_ARGS)]
                    return [('dispatch', n, member)]
            return [('error', UNKNOWN_METHOD)]
        cands = [(n, ms) for n, ms in self.ifaces if member in ms]
        if not cands:
            return [('error', UNKNOWN_METHOD)]
        outs = []
        for n, ms in cands:
            if ms[member][0] != sig:
                outs.append(('error', INVALID_ARGS))
            else:
                outs.append(('dispatch', n, member))
        # statement silent on which candidate is chosen when several interfaces declare the member
        return outs


def outcome_for(r, sig_out, token):
    """(script entry, expectation) for one invocation."""
    types = G.split_signature(sig_out)
    nret = len(types)
    g = gen.Gen(r, max_depth=2, allow_h=False)
    tv = [g.value(ct) for ct in types]
    py = [gen.py_input(ct, v, r, [], marshal_mod=M, plain=True) for ct, v in zip(types, tv)]
    expect_body = [gen.normalise(ct, v) for ct, v in zip(types, py)]
    if nret == 0:
        ret = None
    elif nret == 1:
        ret = py[0]
    else:
        ret = tuple(py) if r.random() < 0.5 else list(py)
    k = r.random()
    if k < 0.34:
        return ('value', ret), ('return', expect_body)
    if k < 0.5:
        return ('deferred-value', ret), ('return', expect_body)
    if k < 0.58:
        return ('deferred-fail', err_class(token)('late failure ' + token)), ('error', 'org.txdbus.PythonException.VerifError',
                                                                        'late failure ' + token)
    if k < 0.70:
        e = err_class(token)('boom ' + token)
        return ('raise', e), ('error', 'org.txdbus.PythonException.VerifError', 'boom ' + token)
    if k < 0.78:
        e = err_class(token)('named ' + token)
        e.dbusErrorName = r.choice(['org.verif.Error.Custom', 'org.verif.Error.Custom', 'myapp.Failure', 'a.b', 'a._9',
                                    'a.' + 'b' * 253, 'org.verif-not.Valid' if False else 'org.verif.E_2.x'])
        return ('raise', e), ('error', e.dbusErrorName, 'named ' + token)
    if k < 0.86:
        e = err_class(token)('badname ' + token)
        e.dbusErrorName = r.choice(['nodots', '1.starts.with.digit', 'a..b', 'has space.x', '', 'a.b\0c', 'a.b\udc80',
                                    'a.b\nc', 'a.' + 'b' * 300, 'org.verif.Error.FromFile\n', 'a.b\r\n', '\na.b', 'a.b ',
                                    'a.b\t', 'a.b.', '.a.b', 'a.b%s', 'a.{0}', 'a.b\x00'])
        return ('raise', e), ('error', 'org.txdbus.InvalidErrorName', 'badname ' + token)
    if k < 0.90:
        e = err_class(token)('nul\0text ' + token)
        return ('raise', e), ('error', 'org.txdbus.PythonException.VerifError', None)
    # value not encodable under the declared signature
    if nret == 0:
        return ('value', None), ('return', [])
    if nret >= 2 and r.random() < 0.5:
        return ('value', tuple(py[:-1])), ('any-error', None, None)          # too few values
    bad = {'s': 12345, 'i': 'not an int', 'x': 'nope', 'a': 7, '(': 7, 'v': object(), 'd': 'nan?'}
    wrong = bad.get(types[0][0], object())
    ret = wrong if nret == 1 else tuple([wrong] + py[1:])
    return ('value', ret), ('any-error', None, None)


def run_case(ctx, seed, idx):
    r = random.Random('%s/c10/%s' % (seed, idx))
    case = {'kind': 'case', 'idx': idx}
    del LOG[:]
    saved = dict(I.DBusInterface.knownInterfaces)
    try:
        d = Decl(r, idx)
        if getattr(d, 'mixins', 0):
            ctx.count('classes_with_bindings_in_a_plain_mixin', d.mixins)
        peer = clientfix.Peer().ready()
        conn = peer.proto
        if d.base_obj is not None:
            conn.exportObject(d.base_obj)
            ctx.count('base_class_instance_exported_first')
        conn.exportObject(d.obj)
        targets = [d]
        if idx % 3 == 0:
            # a second class implementing the SAME interfaces and members (same generator stream), each implementation
            # with the opposite dbusCaller choice, exported beside the first: what is learnt about one implementation
            # must not be applied to the other
            d2 = Decl(random.Random('%s/c10/%s' % (seed, idx)), idx, flip_wants=True, path='/sib', cname_suffix='Sib')
            conn.exportObject(d2.obj)
            targets.append(d2)
            if r.random() < 0.5:
                targets.reverse()
            ctx.count('sibling_classes')
        peer.take()                       # InterfacesAdded signals
        others = None
        if idx % 4 == 2:
            # two more connections of the same process (session and system bus, say): one exports ANOTHER object at the
            # very same path, one exports nothing.  "Exported" is a matter of each connection.
            p2, p3 = clientfix.Peer().ready(), clientfix.Peer().ready()
            other_log = []
            ocls = type('Elsewhere%s' % idx, (O.DBusObject,), {
                'dbusInterfaces': [I.DBusInterface('org.verif.c10.Elsewhere', I.Method('Where', returns='s'), noRegister=True)],
                'dbus_Where': lambda self_: other_log.append('where') or 'elsewhere'})
            d_first = d
            p2.proto.exportObject(ocls(d_first.path))
            p2.take()
            others = (p2, p3, other_log, d_first)
            ctx.count('cases_with_other_connections_in_the_process')
        for d in targets:
            if not drive(ctx, seed, idx, r, d, peer, case):
                return
        if others is not None:
            p2, p3, other_log, d0 = others
            n_log = len(LOG)
            n0, ms0 = d0.ifaces[0]
            m0 = sorted(ms0)[0]
            probes = [(p3, d0.path, n0, m0, 'error', 'org.freedesktop.DBus.Error.UnknownObject'),
                      (p2, d0.path, n0, m0, 'error', None),
                      (p2, d0.path, 'org.verif.c10.Elsewhere', 'Where', 'return', ['elsewhere'])]
            for k, (pp, path_, iface_, member_, want_kind, want) in enumerate(probes):
                pp.take()
                pp.send(RM.build(RM.METHOD_CALL, 7000 + k, {'path': path_, 'member': member_, 'interface': iface_,
                                                            'destination': clientfix.UNIQUE, 'sender': SENDER}, '', []))
                reps = [m for m in pp.take() if m.fields.get('reply_serial') == 7000 + k]
                w_ = {'probe': k, 'path': path_, 'interface': iface_, 'member': member_,
                      'replies': [(m.mtype, m.fields.get('error_name'), repr(m.body)[:80]) for m in reps]}
                good = len(reps) == 1 and ((want_kind == 'error' and reps[0].mtype == RM.ERROR and
                                            (want is None or reps[0].fields.get('error_name') == want)) or
                                           (want_kind == 'return' and reps[0].mtype == RM.METHOD_RETURN and reps[0].body == want))
                if not good or len(LOG) != n_log:
                    ctx.report('export-table-shared-between-connections', 'a call arriving on ANOTHER connection of the process '
                               '(%s) for %s %s.%s was answered %r%s' % (
                                   'which exports nothing' if pp is p3 else 'which exports a different object at that path',
                                   path_, iface_, member_, w_['replies'],
                                   '; an implementation exported on the first connection ran' if len(LOG) != n_log else ''),
                               w_, case)
                    return
            if other_log != ['where']:
                ctx.report('export-table-shared-between-connections', 'the object exported on the second connection ran %r' % (
                    other_log,), {}, case)
                return
            for pp in (p2, p3):
                pp.lose()
        if idx % 5 == 1:
            # another object with OTHER declarations of the same interface names is exported on the same path (export
            # replaces what was there): calls are judged by what is exported now, not by what was called before
            d3 = Decl(random.Random('%s/c10/%s/replacement' % (seed, idx)), idx, cname_suffix='R')
            conn.exportObject(d3.obj)
            peer.take()
            ctx.count('objects_replaced_on_their_path')
            if not drive(ctx, seed, idx, r, d3, peer, case):
                return
    except RM.CodecError as e:
        ctx.report('malformed-reply', 'a reply written by the exporter is not a well-formed message: %s' % e,
                   {'idx': idx}, case)
    finally:
        I.DBusInterface.knownInterfaces.clear()
        I.DBusInterface.knownInterfaces.update(saved)


def drive(ctx, seed, idx, r, d, peer, case):
    if True:
        ncalls = r.choice([1, 2, 3, 5])
        calls = []
        deferreds = {}                    # call index -> (list holder, completion)
        serial = 100 + (1000 if d.path != '/obj' else 0)
        for ci in range(ncalls):
            serial += 1
            token = 'T%d_%d' % (idx, ci)
            # choose what to call
            kind = r.choice(['right', 'right', 'right', 'wrong-path', 'wrong-iface', 'wrong-member', 'wrong-sig', 'no-iface'])
            n, ms = r.choice(d.ifaces)
            if d.redeclared:
                # which declaration a call WITHOUT interface header meets when one name is declared twice is not stated;
                # calls to such objects name their interface, and "the interface n" is its most derived declaration
                if kind == 'no-iface':
                    kind = 'right'
                ms = next(ms_ for n_, ms_ in d.ifaces if n_ == n)
            member = r.choice(sorted(ms))
            sig_in = ms[member][0]
            path, iface = d.path, n
            if kind == 'wrong-path':
                path = r.choice([p for p in PATHS if p not in ('/obj', d.path)])    # no path some other object is exported at
            elif kind == 'wrong-iface':
                iface = r.choice(['org.verif.c10.Nope', d.ifaces[0][0] + 'x', 'org.verif.c10.C%s' % idx])
            elif kind == 'wrong-member':
                member = r.choice(['Nope', member + 'x', member.lower()])
            elif kind == 'wrong-sig':
                sig_in = r.choice([s for s in SIGS_IN if s != sig_in])
            elif kind == 'no-iface':
                iface = None
            g = gen.Gen(r, max_depth=2, allow_h=False)
            tv = g.values(sig_in)
            if sig_in.startswith('s'):
                tv[0] = token
            no_reply = r.random() < 0.25
            sender = SENDER if r.random() < 0.85 else None         # peer-to-peer connections carry no sender
            fields = {'path': path, 'member': member, 'destination': clientfix.UNIQUE}
            if sender:
                fields['sender'] = sender
            if iface is not None:
                fields['interface'] = iface
            # other flag bits (ALLOW_INTERACTIVE_AUTHORIZATION, bits unknown to this implementation) must be ignored
            other_bits = r.choice([0, 0, 0, 2, 4, 8, 0x80, 0x86])
            raw = RM.build(RM.METHOD_CALL, serial, fields, sig_in, tv, r.random() < 0.8,
                           flags=(RM.NO_REPLY_EXPECTED if no_reply else 0) | other_bits)
            outs = d.lookup(path, iface, member, sig_in)
            holder = []
            plan = {}
            plan_sig = {}
            ambiguous = False
            for o in outs:
                if o[0] != 'dispatch':
                    continue
                impl = d.impl.get((o[1], o[2]))
                if impl is None:
                    continue
                sig_out = next(ms_ for n_, ms_ in d.ifaces if n_ == o[1])[o[2]][1]     # the most derived declaration
                if impl[0] in plan and plan_sig.get(impl[0]) != sig_out:
                    ambiguous = True      # one dbus_<name> serving interfaces with different return signatures
                plan_sig[impl[0]] = sig_out
                plan[impl[0]] = outcome_for(random.Random('%s/%s/%s/%s' % (seed, idx, ci, impl[0])), sig_out, token)
            calls.append({'ci': ci, 'serial': serial, 'raw': raw, 'outs': outs, 'no_reply': no_reply, 'token': token,
                          'args': R.plain_list(sig_in, tv) if sig_in else [], 'holder': holder, 'plan': plan,
                          'entry': None, 'exp': None, 'kind': kind, 'ambiguous': ambiguous, 'sender': sender, 'path': path, 'iface': iface, 'member': member,
                          'sig': sig_in})
        # deliver the calls (possibly several in one read), then complete deferreds in a random order
        ctx.count('evaluations', len(calls))
        for c in calls:
            before = len(LOG)
            CURRENT['plan'] = c['plan']
            CURRENT['used'] = None
            CURRENT['holder'] = c['holder']
            if (idx + c['ci']) % 3 == 0:
                # the call arrives in one read BEHIND a message of the other byte order (a signal nobody subscribed to):
                # the bus forwards every message in its author's byte order, and reads coalesce
                other_order = c['raw'][0:1] != b'l'
                filler = RM.build(RM.SIGNAL, 90000 + c['serial'], {'path': '/filler', 'member': 'Noise', 'interface': 'x.y',
                                                                   'sender': ':1.99'}, 's', ['noise'], other_order)
                peer.send(filler + c['raw'])
                ctx.count('calls_behind_a_message_of_the_other_byte_order')
            else:
                peer.send(c['raw'])
            c['invs'] = LOG[before:]       # dispatch is synchronous: these invocations belong to this call
            if CURRENT['used'] in c['plan']:
                c['entry'], c['exp'] = c['plan'][CURRENT['used']]
        CURRENT['plan'] = {}
        w = {'interfaces': [(n, ms) for n, ms in d.ifaces], 'styles': d.style,
             'calls': [{k: c[k] for k in ('serial', 'kind', 'path', 'iface', 'member', 'sig', 'no_reply', 'token')}
                       for c in calls]}
        if peer.ep.crashes:
            w['crash'] = repr(peer.ep.crashes[0])
            ctx.report('crash', 'exporting connection crashed with %r while dispatching' % peer.ep.crashes[0], w, case)
            return False
        pending = [c for c in calls if c['holder']]
        order = list(range(len(pending)))
        r.shuffle(order)
        if len(pending) > 1:
            ctx.count('deferred_completions_reordered')
        for k in order:
            c = pending[k]
            for dfd, entry in c['holder']:
                if entry[0] == 'deferred-value':
                    dfd.callback(entry[1])
                else:
                    dfd.errback(entry[1])
        msgs = peer.take()
        if peer.ep.crashes:
            w['crash'] = repr(peer.ep.crashes[0])
            ctx.report('crash', 'exporting connection crashed with %r' % peer.ep.crashes[0], w, case)
            return False
        judge(ctx, d, calls, msgs, w, case)
        if idx % 4 == 0:
            # the standard Peer.Ping, which the connection answers itself: one empty return to the caller, no user code
            # (also when the object declares a member called Ping on an interface of its own)
            serial += 1
            no_reply = idx % 8 == 0
            before = len(LOG)
            peer.send(RM.build(RM.METHOD_CALL, serial, {'path': r.choice([d.path, '/not/exported']), 'member': 'Ping',
                                                        'interface': 'org.freedesktop.DBus.Peer', 'sender': SENDER,
                                                        'destination': clientfix.UNIQUE}, '', [], True,
                               flags=RM.NO_REPLY_EXPECTED if no_reply else 0))
            got = peer.take()
            ctx.count('evaluations')
            pw = dict(w, ping_serial=serial, replies=[_describe(m) for m in got], no_reply=no_reply)
            if len(LOG) != before:
                ctx.report('user-code-ran', 'user code ran for org.freedesktop.DBus.Peer.Ping', pw, case)
            elif len(got) > 1:
                ctx.report('two-replies', 'Peer.Ping received %d replies' % len(got), pw, case)
            elif len(got) == 1 and not (got[0].mtype == RM.METHOD_RETURN and got[0].fields.get('reply_serial') == serial and
                                        got[0].fields.get('destination') == SENDER and not got[0].body):
                ctx.report('ping-reply', 'Peer.Ping answered with %s' % _describe(got[0]), pw, case)
            elif not got and not no_reply:
                ctx.report('ping-reply', 'Peer.Ping got no reply', pw, case)
            else:
                ctx.count('pings_ok')
    return True


def judge(ctx, d, calls, msgs, w, case):
    by_serial = {}
    for m in msgs:
        if m.mtype in (RM.METHOD_RETURN, RM.ERROR):
            by_serial.setdefault(m.fields.get('reply_serial'), []).append(m)
        else:
            ctx.report('unexpected-message', 'exporter wrote an unexpected %s' % RM.TYPE_NAMES.get(m.mtype), w, case)
    known_serials = {c['serial'] for c in calls}
    for s in by_serial:
        if s not in known_serials:
            ctx.report('reply-to-nothing', 'a reply carries reply_serial %r that no call used' % s, w, case)
    for c in calls:
        reps = by_serial.get(c['serial'], [])
        invs = c['invs']
        outs = c['outs']
        cw = dict(w, call=c['serial'], replies=[_describe(m) for m in reps],
                  invocations=[(i, repr(a)[:100], cl) for i, a, cl in invs])
        dispatch_ok = [o for o in outs if o[0] == 'dispatch' and d.impl.get((o[1], o[2])) is not None]
        errors_ok = [o[1] for o in outs if o[0] == 'error']
        ctx.count('calls_' + c['kind'])
        lookup_class = 'dispatch' if dispatch_ok and not errors_ok else 'error' if errors_ok and not dispatch_ok else 'either'
        ctx.distinct('nontrivial_cases', (lookup_class, c['kind'], c['entry'][0] if c['entry'] else None, c['no_reply'],
                                          c['sig'], c['iface'] is None))
        if len(reps) > 1:
            ctx.report('two-replies', 'call %d received %d replies' % (c['serial'], len(reps)), cw, case)
            continue
        for m in reps:
            if m.fields.get('destination') != c['sender']:
                ctx.report('reply-destination', 'reply to call %d is addressed to %r, caller is %r' % (
                    c['serial'], m.fields.get('destination'), c['sender']), cw, case)
        invoked = len(invs)
        if invoked > 1:
            ctx.report('invoked-twice', 'the implementation ran %d times for one call' % invoked, cw, case)
            continue
        if invoked == 1:
            ctx.count('invocations')
            if not dispatch_ok:
                ctx.report('user-code-ran', 'user code ran although path/member/signature do not match (%s)' % c['kind'],
                           cw, case)
                continue
            impl_id, args, caller = invs[0]
            allowed_impls = {d.impl[(o[1], o[2])] for o in dispatch_ok}
            hit = [im for im in allowed_impls if im[0] == impl_id]
            if not hit:
                ctx.report('wrong-implementation', 'implementation %s ran; bound for this call: %s' % (
                    impl_id, sorted(i[0] for i in allowed_impls)), cw, case)
                continue
            if not R.plain_eq(args, c['args']):
                ctx.report('wrong-arguments', 'implementation saw %r, call carried %r' % (repr(args)[:80],
                                                                                         repr(c['args'])[:80]), cw, case)
            want_caller = c['sender'] if hit[0][1] else '<not asked>'
            if caller != want_caller:
                ctx.report('caller-name', 'implementation got caller %r, expected %r' % (caller, want_caller), cw, case)
            if c['no_reply']:
                if reps:
                    ctx.report(classify_noreply(c), 'call flagged NO_REPLY_EXPECTED was dispatched and still answered', cw, case)
                else:
                    ctx.count('noreply_dispatched_silent')
                continue
            if not reps:
                ctx.report(classify_missing(c), 'dispatched call %d (outcome %s) got no reply' % (
                    c['serial'], c['entry'][0] if c['entry'] else None), cw, case)
                continue
            if c['ambiguous']:
                ctx.count('ambiguous_not_judged')
                continue
            check_reply(ctx, c, reps[0], cw, case)
        else:
            # not invoked: must be an error outcome (or, for NO_REPLY, silence)
            if dispatch_ok and not errors_ok:
                ctx.report('not-invoked', 'call %d matches path, interface, member and signature but the implementation '
                           'did not run' % c['serial'], cw, case)
                continue
            if not reps:
                if not c['no_reply']:
                    ctx.report('no-error-reply', 'call %d (%s) got no reply' % (c['serial'], c['kind']), cw, case)
                continue
            m = reps[0]
            if m.mtype != RM.ERROR or m.fields.get('error_name') not in errors_ok:
                ctx.report('wrong-error', 'call %d (%s): reply %s, expected error %s' % (
                    c['serial'], c['kind'], _describe(m), errors_ok), cw, case)
            else:
                ctx.count('error_replies_ok')


def check_reply(ctx, c, m, cw, case):
    exp = c['exp']
    kind = exp[0]
    if kind == 'return':
        if m.mtype != RM.METHOD_RETURN:
            ctx.report('wrong-reply-kind', 'expected a method return, got %s' % _describe(m), cw, case)
            return
        if not R.plain_eq(m.body, exp[1]):
            ctx.report('wrong-return-value', 'reply body %r, implementation returned %r' % (
                repr(m.body)[:100], repr(exp[1])[:100]), cw, case)
            return
        ctx.count('returns_ok')
    elif kind == 'error':
        if m.mtype != RM.ERROR:
            ctx.report('wrong-reply-kind', 'expected an error reply, got %s' % _describe(m), cw, case)
            return
        if m.fields.get('error_name') != exp[1]:
            ctx.report('wrong-error-name', 'error reply named %r, expected %r' % (m.fields.get('error_name'), exp[1]),
                       cw, case)
            return
        if exp[2] is not None:
            text = m.body[0] if m.body and isinstance(m.body[0], str) else None
            if text is None or exp[2] not in text:
                ctx.report('error-text', 'error reply text %r does not carry the exception text %r' % (text, exp[2]),
                           cw, case)
                return
        ctx.count('errors_ok')
    else:
        if m.mtype != RM.ERROR:
            ctx.report(classify_unencodable(c, m), 'return value not encodable under the declared signature, yet the '
                       'reply is %s' % _describe(m), cw, case)
            return
        ctx.count('unencodable_rejected')


def classify_noreply(c):
    return None


def classify_missing(c):
    e = c['entry'][1] if c.get('entry') and c['entry'][0] == 'raise' else None
    name = getattr(e, 'dbusErrorName', None)
    if isinstance(name, str) and ('\0' in name or any(0xD800 <= ord(ch) <= 0xDFFF for ch in name)):
        return 'invalid-error-name-unencodable'
    return None


def classify_unencodable(c, m):
    return None


def _describe(m):
    if m.mtype == RM.ERROR:
        return 'error %s %r' % (m.fields.get('error_name'), (m.body or [None])[0])
    return '%s %r' % (RM.TYPE_NAMES.get(m.mtype), repr(m.body)[:80])


def run(ctx):
    si, sn = ctx.shard or (0, 1)
    quick = ctx.tier == 'quick'
    ctx.rule = ('generated exported classes (1-3 interfaces, shared member names, base/derived classes, dbus_<name> and '
                '@dbusMethod bindings, dbusCaller or not) x reference-built calls (right / wrong path, interface, member, '
                'signature; interface header absent; NO_REPLY flag) x outcomes (value, tuple, Deferred fired or failed '
                'later in random order, exception with no / valid / invalid dbusErrorName, NUL in the text, unencodable '
                'value); replies parsed strictly from the wire. distinct_nontrivial = distinct (lookup outcome, call '
                'kind, outcome kind, flag, signature, interface given)')
    n = (4000 if quick else 60000) // sn
    ctx.budget(50 if quick else 520)
    for i in range(n):
        run_case(ctx, ctx.seed, i * sn + si)
        ctx.count('classes')
        if ctx.stop_early() or (i % 16 == 0 and ctx.out_of_time()):
            break
    ctx.note('implementations_with_an_unfilled_defaulted_parameter', SPARE['made'])
    r = random.Random(1)
    d = Decl(r, 'sample')
    ctx.sample({'interfaces': [(n_, ms) for n_, ms in d.ifaces], 'binding_styles': d.style})
    for k in ('invocations', 'returns_ok', 'errors_ok', 'error_replies_ok', 'noreply_dispatched_silent'):
        ctx.require(ctx.counters.get(k, 0) > 0 or ctx.known_hits, 'monitor never observed: ' + k)


def replay(ctx, rp):
    run_case(ctx, rp.get('seed', 0), rp['case']['idx'])
