"""
C20 — file descriptors stay attached to the message that carried them.

Receiver: message sequences carrying 0-3 descriptor tokens each (plain, array and struct
positions, interleaved with plain messages); the events {arrival of each descriptor, delivery
of each read chunk} are interleaved in every way a stream socket allows (descriptors in
sending order, each no later than the final byte of its message) for <= 3 messages, random
with arbitrary splitting beyond.  Sender: callRemote on a recording IUNIXTransport.
Oracle: token equality, conservation (attached = delivered, queue consumed by the declared count).
"""
import itertools
import random
import zlib

from harness import clientfix, ref_codec as R, ref_grammar as G, ref_message as RM, simnet
from harness.ref_codec import Variant as RVariant
from checks.c04 import RecServer, RecClient, SERVER_HS, CLIENT_HS

PROP = 'C20'
LEVEL = 'exploration'
SHARDS = {'thorough': 16}

# body shapes: (signature, builder(fd indices iterator, tag) -> typed values, number of descriptors)
SHAPES = [
    ('', lambda it, t: [], 0),
    ('s', lambda it, t: [t], 0),
    ('h', lambda it, t: [next(it)], 1),
    ('sh', lambda it, t: [t, next(it)], 1),
    ('hh', lambda it, t: [next(it), next(it)], 2),
    ('ah', lambda it, t: [[next(it), next(it)]], 2),
    ('(hs)h', lambda it, t: [[next(it), t], next(it)], 2),
    ('hahs', lambda it, t: [next(it), [next(it), next(it)], t], 3),
    ('a(sh)', lambda it, t: [[[t, next(it)]]], 1),
    ('ah', lambda it, t: [[]], 0),
]

# receiver side only (the library's own sender declares exactly what its arguments refer to): descriptors declared in the
# header and attached, but not referred to by any argument - the count consumed is the declared one, whatever the body
# looks like, or whether there is a body at all
RX_SHAPES = SHAPES + [
    ('', lambda it, t: [], 1),
    ('s', lambda it, t: [t], 2),
    ('h', lambda it, t: [next(it)], 2),
    # descriptors inside variants (an a{sv} options dictionary, a bare variant): txdbus' own sender cannot produce these
    ('v', lambda it, t: [RVariant('h', next(it))], 1),
    ('a{sv}', lambda it, t: [[('log', RVariant('h', next(it))), ('name', RVariant('s', t)), ('lock', RVariant('h', next(it)))]], 2),
    ('sv', lambda it, t: [t, RVariant('ah', [next(it), next(it)])], 2),
    ('(sv)h', lambda it, t: [[t, RVariant('(hs)', [next(it), 'x'])], next(it)], 2),
]


class Tok:
    """A descriptor token: unique, identifies (message, position)."""

    def __init__(self, msg, pos):
        self.msg = msg
        self.pos = pos

    def __repr__(self):
        return 'FD<m%d#%d>' % (self.msg, self.pos)

    def __bool__(self):
        # descriptor 0 is a descriptor too: tokens at even positions are falsy, like the integer 0
        return self.pos % 2 == 1


def build_messages(r, nmsgs, serial0=500):
    msgs = []
    for i in range(nmsgs):
        sig, build, nfd = r.choice(RX_SHAPES)
        it = iter(range(10))
        body = build(it, 'm%d' % i)
        fields = {'path': '/a', 'member': 'M%d' % i, 'interface': 'a.b'}
        if nfd:
            fields['unix_fds'] = nfd
        mtype = r.choice([RM.METHOD_CALL, RM.SIGNAL])
        raw = RM.build(mtype, serial0 + i, fields, sig, body, r.random() < 0.8)
        toks = [Tok(i, k) for k in range(nfd)]
        msgs.append({'raw': raw, 'sig': sig, 'nfd': nfd, 'toks': toks, 'typed': body, 'member': 'M%d' % i})
    return msgs


def expected_body(m):
    """plain body with descriptor indices replaced by this message's tokens"""
    def sub(ct, v):
        c = ct[0]
        if c == 'h':
            return m['toks'][v]
        if c == 'a':
            et = ct[1:]
            if et[0] == '{':
                kt, vt = G.struct_fields(et)
                return {sub(kt, k_): sub(vt, v_) for k_, v_ in v}
            return [sub(et, x) for x in v]
        if c == '(':
            return [sub(ft, fv) for ft, fv in zip(G.struct_fields(ct), v)]
        if c == 'v':
            return sub(v.sig, v.value)
        return v
    return [sub(ct, v) for ct, v in zip(G.split_signature(m['sig']), m['typed'])] if m['sig'] else []


def same(a, b):
    if isinstance(a, Tok) or isinstance(b, Tok):
        return a is b
    if isinstance(a, list) and isinstance(b, list):
        return len(a) == len(b) and all(same(x, y) for x, y in zip(a, b))
    if isinstance(a, dict) and isinstance(b, dict):
        return set(a) == set(b) and all(same(a[k_], b[k_]) for k_ in a)
    return a == b


def run_schedule(ctx, msgs, schedule, mode, case):
    """schedule: list of ('fd', msg index, pos) | ('read', bytes)."""
    p = RecServer() if mode == 'server' else RecClient()
    ep = simnet.Endpoint(p, unix=True, name='rx').connect()
    hs = list(SERVER_HS if mode == 'server' else CLIENT_HS + [b'AGREE_UNIX_FD\r\n'])
    # the peer may pipeline its first messages behind the line that ends the handshake: that line (or its second half)
    # then arrives in the same read as the first message bytes, AFTER the descriptors of that read
    coalesce = zlib.crc32(repr(sorted(case.items())).encode()) % 4 if schedule and schedule[0][0] == 'fd' else 0
    tail = b''
    if coalesce == 1:
        tail = hs.pop()
    elif coalesce == 2:
        last = hs.pop()
        hs.append(last[:3])
        tail = last[3:]
    for piece in hs:
        ep.feed(piece)
    if tail:
        ctx.count('handshake_end_coalesced_with_descriptor_message')
        k = next(i for i, e in enumerate(schedule) if e[0] == 'read')
        schedule = list(schedule)
        schedule[k] = ('read', tail + schedule[k][1], None)
    ctx.count('evaluations')
    queued_ahead = 0
    delivered_before = 0
    for ev in schedule:
        if ev[0] == 'fd':
            ep.feed_fd(msgs[ev[1]]['toks'][ev[2]])
            # how many descriptors of not-yet-delivered later messages are queued
            ahead = ev[1] - len(p.got)
            queued_ahead = max(queued_ahead, ahead)
        else:
            if not ep.feed(ev[1]):
                break
    ctx.counters['max_messages_queued_ahead'] = max(ctx.counters.get('max_messages_queued_ahead', 0), queued_ahead)
    w = {'messages': [{'sig': m['sig'], 'nfd': m['nfd'], 'len': len(m['raw'])} for m in msgs],
         'schedule': [(e[0], e[1], e[2]) if e[0] == 'fd' else ('read', len(e[1])) for e in schedule], 'mode': mode}
    if ep.crashes:
        w['crash'] = repr(ep.crashes[0])
        ctx.report('crash', 'receiver crashed with %r' % ep.crashes[0], w, case)
        return False
    if len(p.got) != len(msgs):
        ctx.report('delivery-count', '%d messages sent, %d delivered' % (len(msgs), len(p.got)), w, case)
        return False
    for (kind, m), exp in zip(p.got, msgs):
        body = list(m.body) if getattr(m, 'body', None) else []
        want = expected_body(exp)
        if not same(body, want):
            w['got'] = repr(body)
            w['want'] = repr(want)
            ctx.report('descriptor-misattributed', 'message %s delivered with %r, its descriptors are %r' % (
                exp['member'], body, want), w, case)
            return False
        if exp['nfd'] and getattr(m, 'unix_fds', None) != exp['nfd']:
            ctx.report('unix-fds-header', 'unix_fds header read as %r, declared %d' % (getattr(m, 'unix_fds', None),
                                                                                      exp['nfd']), w, case)
            return False
    left = getattr(p, '_receivedFDs', None)
    if isinstance(left, list) and left:
        ctx.report('descriptors-left-queued', '%d descriptors left queued after every message was delivered' % len(left),
                   w, case)
        return False
    ctx.count('messages_with_fds', sum(1 for m in msgs if m['nfd']))
    return True


def all_schedules(msgs, cuts_per_msg):
    """Every interleaving of fd arrivals with read chunks that a stream allows."""
    reads = []           # (chunk bytes, index of the message whose last byte this chunk contains, or None)
    for i, m in enumerate(msgs):
        raw = m['raw']
        cuts = cuts_per_msg[i]
        pieces = simnet.chunks_of(raw, cuts)
        for k, pc in enumerate(pieces):
            reads.append((pc, i if k == len(pieces) - 1 else None))
    fds = [(i, k) for i, m in enumerate(msgs) for k in range(m['nfd'])]
    # deadline of fd (i,k): before the read containing the last byte of message i
    last_read = {}
    for ri, (pc, li) in enumerate(reads):
        if li is not None:
            last_read[li] = ri

    def rec(ri, fi, acc):
        if ri == len(reads) and fi == len(fds):
            yield list(acc)
            return
        # option 1: next fd arrives now (if any left)
        if fi < len(fds):
            acc.append(('fd', fds[fi][0], fds[fi][1]))
            yield from rec(ri, fi + 1, acc)
            acc.pop()
        # option 2: next read is delivered now — allowed only if no pending fd has its deadline at this read
        if ri < len(reads):
            if fi < len(fds) and last_read[fds[fi][0]] <= ri:
                return
            acc.append(('read', reads[ri][0], None))
            yield from rec(ri + 1, fi, acc)
            acc.pop()
    return rec(0, 0, [])


# ------------------------------------------------------------------ sender side

def sender_case(ctx, seed, idx):
    r = random.Random('%s/c20send/%s' % (seed, idx))
    case = {'kind': 'send', 'idx': idx}
    peer = clientfix.Peer(unix=True).ready()
    conn = peer.proto
    peer.take()
    n = r.choice([1, 2, 4])
    sent = []
    for i in range(n):
        if r.random() < 0.25:
            # a call that cannot be sent (its last argument does not conform) although its first arguments are descriptors:
            # nothing of it may reach the transport, in particular no descriptor that would then precede the NEXT message
            orphan = [Tok(90 + i, 0), Tok(90 + i, 1)]
            try:
                d = conn.callRemote('/a', 'Bad%d' % i, interface='a.b', destination='a.b', signature='hhi',
                                    body=[orphan[0], orphan[1], 'not-an-int'])
                d.addErrback(lambda f: None)
            except Exception:
                pass
            ctx.count('unsendable_descriptor_calls')
        sig, build, nfd = r.choice(SHAPES)
        toks = [Tok(i, k) for k in range(nfd)]
        if nfd > 1 and r.random() < 0.35:
            toks = [toks[0]] * nfd           # the same descriptor passed for every 'h' argument: still n transmissions
            ctx.count('repeated_descriptor_messages')
        it = iter(toks)
        body = build(it, 'c%d' % i)
        # structs may be tuples, arrays lists
        # every way of making the call: reply expected or not (fire and forget), with a deadline, auto-start off
        kw = r.choice([{}, {}, {'expectReply': False}, {'expectReply': False}, {'timeout': 5.0}, {'autoStart': False},
                       {'expectReply': False, 'autoStart': False}])
        ctx.count('sender_calls_' + ('noreply' if kw.get('expectReply') is False else 'reply'))
        d = conn.callRemote('/a', 'S%d' % i, interface='a.b', destination='a.b', signature=sig or None,
                            body=body if sig else None, **kw)
        d.addErrback(lambda f: None)
        sent.append({'sig': sig, 'toks': toks, 'body': body, 'member': 'S%d' % i})
    ctx.count('evaluations')
    msgs = [m for m in peer.take() if m.fields.get('member', '').startswith('S')]
    w = {'calls': [{'sig': s['sig'], 'nfd': len(s['toks'])} for s in sent]}
    if len(msgs) != len(sent):
        ctx.report('send-count', '%d calls made, %d messages written' % (len(sent), len(msgs)), w, case)
        return
    for s, m in zip(sent, msgs):
        if m.fds != s['toks'] or any(a is not b for a, b in zip(m.fds, s['toks'])):
            w['fds_before_message'] = repr(m.fds)
            ctx.report('send-order', 'descriptors transmitted ahead of %s: %r, its arguments carry %r' % (
                s['member'], m.fds, s['toks']), w, case)
            return
        declared = m.fields.get('unix_fds', 0)
        if declared != len(s['toks']):
            ctx.report('unix-fds-header', 'unix_fds header %r for %d descriptors' % (declared, len(s['toks'])), w, case)
            return
        idxs = []

        def walk(ct, v):
            c = ct[0]
            if c == 'h':
                idxs.append(v)
            elif c == 'a':
                for x in v:
                    walk(ct[1:], x)
            elif c == '(':
                for ft, fv in zip(G.struct_fields(ct), v):
                    walk(ft, fv)
        for ct, v in zip(G.split_signature(s['sig']), m.body_typed):
            walk(ct, v)
        if idxs != list(range(len(s['toks']))):
            ctx.report('fd-indices', 'descriptor indices in the body are %r' % idxs, w, case)
            return
        ctx.count('sender_messages_ok')
    ctx.distinct('nontrivial_cases', ('send', tuple(s['sig'] for s in sent)))


def _rx(mode):
    p = RecServer() if mode == 'server' else RecClient()
    ep = simnet.Endpoint(p, unix=True, name='rx').connect()
    for piece in (SERVER_HS if mode == 'server' else CLIENT_HS + [b'AGREE_UNIX_FD\r\n']):
        ep.feed(piece)
    return p, ep


def _simple_schedule(r, msgs):
    """Descriptors of each message right before its first byte; the message possibly cut in two."""
    sched = []
    for mi, m in enumerate(msgs):
        for k in range(m['nfd']):
            sched.append(('fd', mi, k))
        if len(m['raw']) > 1 and r.random() < 0.7:
            cut = r.randint(1, len(m['raw']) - 1)
            sched.append(('read', m['raw'][:cut]))
            sched.append(('read', m['raw'][cut:]))
        else:
            sched.append(('read', m['raw']))
    return sched


def _verify(ctx, p, ep, msgs, w, case, who):
    if ep.crashes:
        ctx.report('crash', '%s crashed with %r' % (who, ep.crashes[0]), dict(w, crash=repr(ep.crashes[0])), case)
        return False
    if len(p.got) != len(msgs):
        ctx.report('delivery-count', '%s: %d messages sent, %d delivered' % (who, len(msgs), len(p.got)), w, case)
        return False
    for (kind, m), exp in zip(p.got, msgs):
        body = list(m.body) if getattr(m, 'body', None) else []
        want = expected_body(exp)
        if not same(body, want):
            ctx.report('descriptor-misattributed', '%s: message %s delivered with %r, its descriptors are %r' % (
                who, exp['member'], body, want), dict(w, got=repr(body), want=repr(want)), case)
            return False
    left = getattr(p, '_receivedFDs', None)
    if isinstance(left, list) and left:
        ctx.report('descriptors-left-queued', '%s: %d descriptors left queued after every message was delivered' % (
            who, len(left)), w, case)
        return False
    return True


def two_receivers(ctx, seed, idx):
    """Two connections of one process receive descriptor-carrying messages; their reads and descriptor arrivals are
    interleaved at random (each connection's own events stay in order).  What one connection is delivered does not depend
    on where the other one's stream was cut.  Every third case a further connection is lost while a descriptor it
    received waits for its message, before the two are created."""
    r = random.Random('%s/c20two/%s' % (seed, idx))
    case = {'kind': 'two-receivers', 'idx': idx}
    ctx.count('evaluations')
    if idx % 3 == 0:
        pz, epz = _rx('server' if idx % 2 else 'client')
        mz = [m for m in build_messages(r, 6, serial0=900) if m['nfd']][:1]
        if mz:
            epz.feed_fd(mz[0]['toks'][0])
            epz.feed(mz[0]['raw'][:r.randint(1, len(mz[0]['raw']) - 1)])
            epz.lose()
            ctx.count('connections_lost_holding_a_descriptor')
    sides = []
    for name, s0 in (('A', 500), ('B', 700)):
        msgs = []
        while not any(m['nfd'] for m in msgs):
            msgs = build_messages(r, r.randint(1, 3), serial0=s0)
        for mi, m in enumerate(msgs):
            m['toks'] = [Tok((0 if name == 'A' else 100) + mi, k) for k in range(m['nfd'])]
        mode = r.choice(['server', 'client'])
        p, ep = _rx(mode)
        sides.append({'name': name, 'msgs': msgs, 'p': p, 'ep': ep, 'sched': _simple_schedule(r, msgs), 'mode': mode})
    order = []
    pend = [list(sd['sched']) for sd in sides]
    while pend[0] or pend[1]:
        k = r.randrange(2)
        if not pend[k]:
            k = 1 - k
        # a descriptor and the read it arrives with are not separated by the other connection's events more often than not
        n_ev = 1 if r.random() < 0.6 else 2
        for _ in range(n_ev):
            if pend[k]:
                order.append((k, pend[k].pop(0)))
    for k, ev in order:
        sd = sides[k]
        if ev[0] == 'fd':
            sd['ep'].feed_fd(sd['msgs'][ev[1]]['toks'][ev[2]])
        else:
            sd['ep'].feed(ev[1])
    w = {'order': [(sides[k]['name'],) + ((ev[0], ev[1], ev[2]) if ev[0] == 'fd' else ('read', len(ev[1]))) for k, ev in order],
         'A': [{'sig': m['sig'], 'nfd': m['nfd']} for m in sides[0]['msgs']],
         'B': [{'sig': m['sig'], 'nfd': m['nfd']} for m in sides[1]['msgs']]}
    for sd in sides:
        if not _verify(ctx, sd['p'], sd['ep'], sd['msgs'], w, case, 'connection ' + sd['name']):
            return False
    ctx.count('two_receiver_cases')
    return True


def resend_case(ctx, seed, idx):
    """One descriptor-carrying message object handed to sendMessage more than once (the same call fanned out to two
    connections, or repeated on one): every transmission puts the message's descriptors ahead of its bytes."""
    from txdbus import message as MSG
    r = random.Random('%s/c20resend/%s' % (seed, idx))
    case = {'kind': 'resend', 'idx': idx}
    ctx.count('evaluations')
    sig, build, nfd = r.choice([sh for sh in SHAPES if sh[2]])
    toks = [Tok(0, k) for k in range(nfd)]
    body = build(iter(toks), 'r')
    peers = [clientfix.Peer(unix=True).ready() for _ in range(2)]
    for pr in peers:
        pr.take()
    try:
        msg = MSG.MethodCallMessage('/a', 'Again', interface='a.b', destination='a.b', signature=sig, body=body,
                                    expectReply=False, oobFDs=[])
    except Exception as e:
        ctx.report(None, 'MethodCallMessage with descriptors could not be built: %r' % e, {'sig': sig}, case)
        return
    plan = r.choice([[0, 1], [0, 0], [0, 1, 0], [1, 0, 1, 1]])
    w = {'sig': sig, 'nfd': nfd, 'sent_on': plan}
    for n_, k in enumerate(plan):
        peers[k].proto.sendMessage(msg)
        got = [m for m in peers[k].take() if m.fields.get('member') == 'Again']
        if len(got) != 1:
            ctx.report('send-count', 'transmission %d of one message object wrote %d messages' % (n_ + 1, len(got)), w, case)
            return
        m = got[0]
        if len(m.fds) != nfd or any(a is not b for a, b in zip(m.fds, toks)):
            ctx.report('resend-loses-descriptors', 'transmission %d of one message object (connection %d) was preceded by the '
                       'descriptors %r, its arguments carry %r' % (n_ + 1, k, m.fds, toks), dict(w, transmission=n_ + 1), case)
            return
        if m.fields.get('unix_fds', 0) != nfd:
            ctx.report('unix-fds-header', 'unix_fds header %r for %d descriptors' % (m.fields.get('unix_fds'), nfd), w, case)
            return
    ctx.count('resent_messages_ok')


def sender_without_descriptor_passing(ctx, seed, idx):
    """A call with descriptor arguments on a transport that cannot pass descriptors (a TCP bus address): the bytes of a
    message declaring n descriptors are never written with fewer than n descriptors ahead of them - here: not at all - and
    the caller is told (an exception or a failed Deferred); plain calls beside it go out as always."""
    r = random.Random('%s/c20tcp/%s' % (seed, idx))
    case = {'kind': 'send-tcp', 'idx': idx}
    peer = clientfix.Peer(unix=False).ready()
    conn = peer.proto
    peer.take()
    ctx.count('evaluations')
    sig, build, nfd = r.choice([sh for sh in SHAPES if sh[2]])
    toks = [Tok(0, k) for k in range(nfd)]
    body = build(iter(toks), 'tcp')
    before = clientfix.Outcome(conn.callRemote('/a', 'Before', interface='a.b', destination='a.b', signature='s', body=['x']))
    told = None
    try:
        out = clientfix.Outcome(conn.callRemote('/a', 'WithFds', interface='a.b', destination='a.b', signature=sig, body=body,
                                                **r.choice([{}, {'expectReply': False}, {'timeout': 4.0}])))
    except Exception as e:
        told = repr(e)
        out = None
    after = clientfix.Outcome(conn.callRemote('/a', 'After', interface='a.b', destination='a.b', signature='s', body=['y']))
    msgs = peer.take()
    w = {'sig': sig, 'nfd': nfd, 'raised': told, 'written': [(m.fields.get('member'), len(m.fds), m.fields.get('unix_fds')) for m in msgs]}
    for m in msgs:
        if m.fields.get('member') == 'WithFds' and len(m.fds) != nfd:
            ctx.report('bytes-without-descriptors', 'on a transport without descriptor passing the message declaring %s '
                       'descriptors was written with %d ahead of it%s' % (m.fields.get('unix_fds'), len(m.fds),
                                                                          '' if told or (out and out.fired and out.results[0][0] == 'err')
                                                                          else ' and the caller was told nothing'), w, case)
            return
    if [m.fields.get('member') for m in msgs if m.fields.get('member') in ('Before', 'After')] != ['Before', 'After']:
        ctx.report('send-count', 'plain calls around an unsendable descriptor call: written %r' % (w['written'],), w, case)
        return
    ctx.count('non_unix_sender_cases')
    peer.lose()


def unknown_type_with_descriptors(ctx):
    """A message of a type this protocol version does not define (5 ...), declaring and carrying descriptors, ahead of
    ordinary descriptor messages.  Dropping the connection there is one acceptable reaction and ignoring the message
    (descriptors included) another; what may not happen is that a LATER message is handed the stranger's descriptors."""
    for mode in ('server', 'client'):
        for mtype in (5, 9, 200):
            for little in (True, False):
                p, ep = _rx(mode)
                case = {'kind': 'unknown-type', 'mode': mode, 'type': mtype}
                stranger = bytearray(RM.build(RM.SIGNAL, 600, {'path': '/a', 'member': 'Odd', 'interface': 'a.b', 'unix_fds': 1},
                                              's', ['x'], little))
                stranger[1] = mtype
                own = Tok(1, 0)
                foreign = Tok(0, 0)
                later = RM.build(RM.METHOD_CALL, 601, {'path': '/a', 'member': 'Later', 'interface': 'a.b', 'unix_fds': 1},
                                 'h', [0], little)
                ep.feed_fd(foreign)
                alive = ep.feed(bytes(stranger))
                if alive and not ep.lost:
                    ep.feed_fd(own)
                    ep.feed(later)
                ctx.count('evaluations')
                ctx.count('unknown_type_descriptor_cases')
                got = [(k, getattr(m, 'member', None), list(m.body or [])) for k, m in p.got]
                w = {'mode': mode, 'type': mtype, 'little': little, 'delivered': repr(got), 'dropped': bool(ep.lost or ep.crashes)}
                for k, member, body in got:
                    if member == 'Later' and not (len(body) == 1 and body[0] is own):
                        ctx.report('descriptor-misattributed', 'after a message of unknown type %d that carried a descriptor, the '
                                   'next message was delivered with %r; its own descriptor is %r' % (mtype, body, own), w, case)
                        return
                    if member == 'Odd':
                        ctx.count('unknown_type_delivered')
                if ep.lost or ep.crashes:
                    ctx.count('unknown_type_drops_the_connection')


def run(ctx):
    si, sn = ctx.shard or (0, 1)
    quick = ctx.tier == 'quick'
    ctx.rule = ('receiver: sequences of 1-3 messages with 0-3 descriptor tokens in plain/array/struct positions, each '
                'message cut into <= 2 reads, every stream-consistent interleaving of descriptor arrivals and reads '
                '(DFS), both protocol flavours; random sequences of <= 8 messages with random splitting and descriptor '
                'arrival times; sender: callRemote on a recording IUNIXTransport. distinct_nontrivial = distinct '
                '(message shapes, schedule) executed')
    ctx.budget(45 if quick else 500)
    n = 0
    stop = False
    total_sched = 0
    for nm in (1, 2, 3):
        cases = (800 if quick else 8000) if nm < 3 else (600 if quick else 6000)
        for ci in range(cases):
            n += 1
            if n % sn != si:
                continue
            r = random.Random('%s/c20/%s/%s' % (ctx.seed, nm, ci))
            msgs = build_messages(r, nm)
            if not any(m['nfd'] for m in msgs):
                continue
            cuts = [[r.randint(1, len(m['raw']) - 1)] if r.random() < 0.6 else [] for m in msgs]
            mode = 'server' if ci % 2 else 'client'
            count = 0
            for sched in all_schedules(msgs, cuts):
                count += 1
                ok = run_schedule(ctx, msgs, sched, mode, {'kind': 'dfs', 'nm': nm, 'ci': ci, 'k': count})
                ctx.distinct('nontrivial_cases', (nm, ci, count))
                if not ok or count > 4000:
                    break
            total_sched += count
            ctx.count('enumerated_sequences')
            if ctx.stop_early() or ctx.out_of_time():
                stop = True
                break
        if stop:
            break
    ctx.count('interleavings', total_sched)
    ctx.exhaustive = not ctx.truncated
    # random longer sequences
    for i in range((3000 if quick else 40000) // sn):
        r = random.Random('%s/c20rand/%s' % (ctx.seed, i * sn + si))
        msgs = build_messages(r, r.randint(2, 8))
        stream = b''.join(m['raw'] for m in msgs)
        cuts = simnet.random_partition(r, len(stream), r.choice([5, 40, 300]))
        pieces = simnet.chunks_of(stream, cuts)
        # position (in bytes) at which each message ends
        ends = []
        pos = 0
        for m in msgs:
            pos += len(m['raw'])
            ends.append(pos)
        sched = []
        fdq = [(mi, k) for mi, m in enumerate(msgs) for k in range(m['nfd'])]
        done = 0
        for pc in pieces:
            # descriptors whose message ends inside this chunk must arrive first; earlier ones may too
            upto = done + len(pc)
            while fdq:
                mi, k = fdq[0]
                must = ends[mi] <= upto
                may = r.random() < 0.3
                if must or may:
                    sched.append(('fd', mi, k))
                    fdq.pop(0)
                else:
                    break
            sched.append(('read', pc, None))
            done = upto
        run_schedule(ctx, msgs, sched, 'server' if i % 2 else 'client', {'kind': 'rand', 'idx': i * sn + si})
        ctx.count('random_schedules')
        if ctx.stop_early():
            break
    # bursts: the descriptors of 6-20 messages (2-3 each) all arrive before the first byte
    for i in range((40 if quick else 600) // sn + 1):
        r = random.Random('%s/c20burst/%s' % (ctx.seed, i * sn + si))
        msgs = []
        while len(msgs) < r.randint(6, 20):
            m = build_messages(r, 1)[0]
            if m['nfd'] >= 2 or r.random() < 0.2:
                k = len(msgs)
                m['toks'] = [Tok(k, j) for j in range(m['nfd'])]
                m['member'] = 'B%d' % k
                msgs.append(m)
        sched = [('fd', mi, k) for mi, m in enumerate(msgs) for k in range(m['nfd'])]
        stream = b''.join(m['raw'] for m in msgs)
        for pc in simnet.chunks_of(stream, simnet.random_partition(r, len(stream), r.choice([30, 400, 10**6]))):
            sched.append(('read', pc, None))
        run_schedule(ctx, msgs, sched, 'server' if i % 2 else 'client', {'kind': 'burst', 'idx': i * sn + si})
        ctx.count('burst_schedules')
        ctx.counters['max_descriptors_queued'] = max(ctx.counters.get('max_descriptors_queued', 0),
                                                     sum(m['nfd'] for m in msgs))
    if si == 0:
        unknown_type_with_descriptors(ctx)
    for i in range((1500 if quick else 20000) // sn):
        sender_case(ctx, ctx.seed, i * sn + si)
    for i in range((300 if quick else 6000) // sn):
        two_receivers(ctx, ctx.seed, i * sn + si)
        resend_case(ctx, ctx.seed, i * sn + si)
        sender_without_descriptor_passing(ctx, ctx.seed, i * sn + si)
        if ctx.stop_early():
            break
    ctx.sample({'messages': [{'sig': 'hh', 'nfd': 2}, {'sig': 's', 'nfd': 0}, {'sig': 'ah', 'nfd': 2}],
                'schedule': ['fd m0#0', 'fd m0#1', 'fd m2#0', 'read 90', 'read 60', 'fd m2#1', 'read 80']})
    ctx.require(ctx.counters.get('interleavings', 0) > 200 or sn > 1, 'too few interleavings')
    ctx.require(ctx.counters.get('max_messages_queued_ahead', 0) >= 1, 'descriptors of later messages were never queued ahead')
    ctx.require(ctx.counters.get('sender_messages_ok', 0) > 50 or ctx.n_new_violations(), 'sender side not observed')


def replay(ctx, rp):
    case = rp['case']
    seed = rp.get('seed', 0)
    if case['kind'] == 'send':
        sender_case(ctx, seed, case['idx'])
        return
    if case['kind'] == 'two-receivers':
        two_receivers(ctx, seed, case['idx'])
        return
    if case['kind'] == 'unknown-type':
        unknown_type_with_descriptors(ctx)
        return
    if case['kind'] == 'send-tcp':
        sender_without_descriptor_passing(ctx, seed, case['idx'])
        return
    if case['kind'] == 'resend':
        resend_case(ctx, seed, case['idx'])
        return
    if case['kind'] == 'dfs':
        r = random.Random('%s/c20/%s/%s' % (seed, case['nm'], case['ci']))
        msgs = build_messages(r, case['nm'])
        cuts = [[r.randint(1, len(m['raw']) - 1)] if r.random() < 0.6 else [] for m in msgs]
        for k, sched in enumerate(all_schedules(msgs, cuts), 1):
            if k == case['k']:
                run_schedule(ctx, msgs, sched, 'server' if case['ci'] % 2 else 'client', case)
                return
    ctx.inconclusive = 'replay of random schedules: re-run with the same seed'
