"""
C13 — built-in bus: a name has one live owner; ownership follows the request flags.

Scripted raw clients on the real Bus; histories of RequestName (all 8 flag values),
ReleaseName and disconnects; after every step GetNameOwner and ListQueuedOwners for every
name are asked by an observer.  Oracle: harness.ref_names, compared step by step
(reply codes, NameAcquired / NameLost notifications, owner lookups, queue listings).
"""
import itertools
import random
import zlib

from harness import busnet, ref_message as RM, ref_names as RN

PROP = 'C13'
LEVEL = 'exploration'
SHARDS = {'thorough': 16}

NAMES = ['org.verif.media-player_1', 'org.verif.N2']      # (a hyphen is legal in a bus name, not in an interface name)
NO_OWNER = 'org.freedesktop.DBus.Error.NameHasNoOwner'


class World:
    def __init__(self, nclients, hello_less=False):
        self.hello_less = hello_less
        self.net = busnet.Net()
        self.observer = self.net.raw_client()
        self.clients = {}
        self.model = RN.Names()
        self.alive = set()
        self.next_id = 0
        for _ in range(nclients):
            self.connect()

    def connect(self):
        cid = self.next_id
        self.next_id += 1
        if self.hello_less and cid % 2 == 1:
            # a client that never says Hello: the bus serves its calls all the same (it is registered, and named, on its
            # first message), so it can own and wait for names like any other and must be cleaned up like any other
            c = self.net.raw_client(hello=False)
            s_ = c.call('GetId')
            rep = [m for m in c.take() if m.fields.get('reply_serial') == s_]
            c.unique = (rep[0].fields.get('destination') if rep else None) or c.proto.uniqueName
        else:
            c = self.net.raw_client()
        if cid % 2 == 0:
            # like every real client, some hold match rules: what the bus does with them when the client goes must not get
            # in the way of cleaning up its names
            c.call('AddMatch', 's', ["type='signal',interface='org.verif.Whatever'"])
            c.call('AddMatch', 's', ["type='signal',member='NameOwnerChanged'"])
            c.take()
        self.clients[cid] = c
        self.alive.add(cid)
        return cid

    def uname(self, cid):
        return self.clients[cid].unique


def forged_sender(w_, cid, step, ctx):
    """Every third request carries a SENDER header field naming ANOTHER connected client (legal on the wire; a relay
    might leave it in): the bus knows who is calling from the connection, not from what the caller wrote."""
    if (step + cid) % 3:
        return None
    others = [c for c in sorted(w_.alive) if c != cid and w_.clients[c].unique]
    if not others:
        return None
    ctx.count('requests_with_forged_sender')
    return w_.clients[others[(step + cid) % len(others)]].unique


def signals_of(client):
    """(member, name) of bus signals addressed to this client since the last take."""
    out = []
    for m in client.take():
        if m.mtype == RM.SIGNAL and m.fields.get('member') in ('NameAcquired', 'NameLost'):
            out.append((m.fields['member'], m.body[0]))
    return out


def run_history(ctx, nclients, ops, names, case):
    """ops: ('req', cid, name idx, flags) | ('rel', cid, name idx) | ('disc', cid) | ('conn',)."""
    hello_less = zlib.crc32(repr(ops).encode()) % 3 == 0
    if hello_less:
        ctx.count('histories_with_hello_less_clients')
    w_ = World(nclients, hello_less)
    model = w_.model
    hist = []
    ctx.count('evaluations')
    ctx.count('histories')
    if len({c.unique for c in w_.clients.values()} | {w_.observer.unique}) != nclients + 1:
        ctx.report('unique-name-reused', 'two connections share a unique name', {}, case)
        return False
    for c in w_.clients.values():
        c.take()
    for op in ops:
        kind = op[0]
        hist.append(list(op))
        w = {'history': list(hist), 'unique': {cid: w_.uname(cid) for cid in w_.clients}}
        expected_events = []
        ctx.count('steps')
        if kind == 'conn':
            w_.connect()
            continue
        cid = op[1]
        if cid not in w_.alive:
            continue
        cl = w_.clients[cid]
        replaced = None
        ctx.distinct('state_op_pairs', (model.state_key(), op))
        if kind == 'req':
            name = names[op[2]]
            flags = op[3]
            old_flags = dict((c, f) for c, f in model.q.get(name, []))
            code, expected_events, replaced = model.request(cid, name, flags)
            # every fifth request / release is fire-and-forget (NO_REPLY_EXPECTED): it takes effect all the same; a reply,
            # should one come, still has to state the right code
            quiet = (len(hist) + cid) % 5 == 3
            s = cl.call('RequestName', 'su', [name, flags], sender=forged_sender(w_, cid, len(hist), ctx),
                        flags=RM.NO_REPLY_EXPECTED if quiet else 0)
            rep = cl.reply_to(s)
            w['expected_reply'] = code
            if quiet:
                ctx.count('fire_and_forget_requests')
            if quiet and rep is None:
                pass
            elif rep is None or rep.mtype != RM.METHOD_RETURN or rep.body != [code]:
                w['reply'] = (rep.mtype, rep.fields.get('error_name'), rep.body) if rep else None
                ctx.report(classify_request(op, code, rep, model), 'RequestName(%s, flags=%d) by client %d answered %r, '
                           'expected %d' % (name, flags, cid, w['reply'], code), w, case)
                return False
            ctx.count('reply_%d' % code)
        elif kind == 'rel':
            name = names[op[2]]
            was_queued = cid in model.queue(name)[1:]
            codes, expected_events = model.release(cid, name)
            quiet = (len(hist) + cid) % 5 == 3
            s = cl.call('ReleaseName', 's', [name], sender=forged_sender(w_, cid, len(hist), ctx),
                        flags=RM.NO_REPLY_EXPECTED if quiet else 0)
            rep = cl.reply_to(s)
            if quiet:
                ctx.count('fire_and_forget_releases')
            if quiet and rep is None:
                pass
            elif rep is None or rep.mtype != RM.METHOD_RETURN or rep.body[0] not in codes:
                w['reply'] = (rep.mtype, rep.fields.get('error_name'), rep.body) if rep else None
                ctx.report(classify_release(was_queued), 'ReleaseName(%s) by client %d answered %r, expected one of %s' % (
                    name, cid, w['reply'], sorted(codes)), w, case)
                return False
            if was_queued:
                ctx.count('releases_by_queued_client')
        elif kind == 'bad':
            # a request the bus must refuse (not a valid well-known name, or a release of one): an error reply or a
            # "non-existent" code, and nothing about the valid names changes (the queries below check that)
            member, arg = op[2], op[3]
            s = cl.call(member, 'su' if member == 'RequestName' else 's', [arg, 4] if member == 'RequestName' else [arg])
            rep = cl.reply_to(s)
            if rep is None or not (rep.mtype == RM.ERROR or (member == 'ReleaseName' and rep.body in ([2], [3]))):
                w['reply'] = (rep.mtype, rep.fields.get('error_name'), rep.body) if rep else None
                ctx.report('invalid-name-accepted', '%s(%r) by client %d answered %r' % (member, arg, cid, w['reply']), w, case)
                return False
            ctx.count('refused_requests')
        elif kind == 'disc':
            was_owner = [n for n in names if model.owner(n) == cid]
            was_queued = [n for n in names if cid in model.queue(n)[1:]]
            expected_events = model.disconnect(cid)
            cl.disconnect()
            w_.alive.discard(cid)
            if was_owner:
                ctx.count('disconnects_of_owner')
            if was_queued:
                ctx.count('disconnects_of_queued_client')
        if w_.net.crashes():
            w['crash'] = repr(w_.net.crashes()[0])
            ctx.report('crash', 'a bus-side connection crashed: %r' % (w_.net.crashes()[0],), w, case)
            return False
        # notifications
        got_events = []
        for c2 in sorted(w_.alive):
            for member, nm in signals_of(w_.clients[c2]):
                got_events.append(('acquired' if member == 'NameAcquired' else 'lost', c2, nm))
        want_events = [e for e in expected_events if e[1] in w_.alive]
        if sorted(got_events) != sorted(want_events):
            w['signals'] = got_events
            w['expected_signals'] = want_events
            ctx.report(classify_events(op, got_events, want_events), 'after %r: notifications %r, expected %r' % (
                op, got_events, want_events), w, case)
            return False
        if any(e[0] == 'acquired' for e in want_events) and kind in ('rel', 'disc'):
            ctx.count('hand_overs')
        # observer queries
        for ni, name in enumerate(names):
            s = w_.observer.call('ListQueuedOwners', 's', [name])
            rep = w_.observer.reply_to(s)
            listing = None
            if rep is not None and rep.mtype == RM.METHOD_RETURN:
                listing = rep.body[0]
            want_q = [w_.uname(c) for c in model.queue(name)]
            if replaced is not None and kind == 'req' and names[op[2]] == name and listing is not None:
                alt = want_q[:1] + [w_.uname(replaced)] + want_q[1:]
                if listing == alt:
                    model.requeue_replaced(name, replaced, old_flags.get(replaced, 0))
                    want_q = alt
                    ctx.count('replaced_owner_requeued')
                else:
                    ctx.count('replaced_owner_dropped')
            if want_q:
                if listing != want_q:
                    w['listing'] = listing if listing is not None else (rep.fields.get('error_name') if rep else None)
                    w['expected_listing'] = want_q
                    ctx.report(classify_listing(model, name, listing, want_q, hist, w_), 'after %r: ListQueuedOwners(%s) = '
                               '%r, model %r' % (op, name, w['listing'], want_q), w, case)
                    return False
            else:
                if listing not in (None, []):
                    w['listing'] = listing
                    ctx.report('listing-of-unowned', 'ListQueuedOwners(%s) = %r for an unowned name' % (name, listing), w, case)
                    return False
            s = w_.observer.call('GetNameOwner', 's', [name])
            rep = w_.observer.reply_to(s)
            owner = model.owner(name)
            if owner is None:
                ok = rep is not None and rep.mtype == RM.ERROR
            else:
                ok = rep is not None and rep.mtype == RM.METHOD_RETURN and rep.body == [w_.uname(owner)]
            if not ok:
                w['owner_reply'] = (rep.mtype, rep.body) if rep else None
                ctx.report('owner-lookup', 'after %r: GetNameOwner(%s) = %r, model owner %r' % (
                    op, name, w['owner_reply'], w_.uname(owner) if owner is not None else None), w, case)
                return False
            if listing:
                if len(set(listing)) != len(listing):
                    ctx.report('duplicate-queue-entry', 'ListQueuedOwners(%s) names a client twice: %r' % (name, listing), w, case)
                    return False
                dead = [u for u in listing if u not in {w_.uname(c) for c in w_.alive}]
                if dead:
                    ctx.report('dead-client-listed', 'ListQueuedOwners(%s) names disconnected clients %r' % (name, dead), w, case)
                    return False
        w_.observer.take()
    ctx.distinct('nontrivial_cases', tuple(ops))
    return True


def classify_request(op, code, rep, model):
    return None


def classify_release(was_queued):
    return None


def classify_events(op, got, want):
    return None


def classify_listing(model, name, listing, want, hist, world):
    return None


def op_alphabet(nclients, nnames, flag_values):
    ops = []
    for c in range(nclients):
        for n in range(nnames):
            for f in flag_values:
                ops.append(('req', c, n, f))
            ops.append(('rel', c, n))
        ops.append(('disc', c))
    return ops


def run(ctx):
    si, sn = ctx.shard or (0, 1)
    quick = ctx.tier == 'quick'
    ctx.rule = ('histories of RequestName (all 8 flag values) / ReleaseName / disconnect (+ reconnect) by up to 4 scripted '
                'clients on 1-2 names on the real Bus, each step followed by GetNameOwner and ListQueuedOwners for every '
                'name from an observer; reply codes, NameAcquired/NameLost notifications, owner and queue compared with '
                'the reference name table. Exhaustive: all histories <= 2 (3 clients, 1 name, 8 flag values) and length 3 '
                'with the first operation fixed to client 0 (symmetry) over 4 flag values; random histories <= 40. '
                'distinct_nontrivial = distinct histories completed')
    ctx.budget(55 if quick else 540)
    n = 0
    stop = False
    full = op_alphabet(3, 1, range(8))
    for ln in (1, 2):
        for ops in itertools.product(full, repeat=ln):
            n += 1
            if n % sn != si:
                continue
            if ops[0][1] != 0:
                continue           # client symmetry: the first operation is issued by client 0
            run_history(ctx, 3, ops, NAMES[:1], {'kind': 'hist', 'nclients': 3, 'ops': [list(o) for o in ops], 'names': 1})
            if ctx.stop_early() or ctx.out_of_time():
                stop = True
                break
        if stop:
            break
    small = op_alphabet(3, 1, [0, 1, 2, 3, 4, 6] if not quick else [0, 3, 4, 6])
    if not stop:
        for ops in itertools.product(small, repeat=3 if quick else 4):
            n += 1
            if n % sn != si:
                continue
            if ops[0][1] != 0 or ops[0][0] != 'req':
                continue
            if quick and n % 3:
                continue
            run_history(ctx, 3, ops, NAMES[:1], {'kind': 'hist', 'nclients': 3, 'ops': [list(o) for o in ops], 'names': 1})
            if ctx.stop_early() or (n % 20 == 0 and ctx.out_of_time()):
                stop = True
                break
    ctx.exhaustive = False
    ctx.note('enumerated_histories', n)
    # random long histories: 4 clients, 2 names, reconnects
    ctx.budget(25 if quick else 300)
    for i in range((400 if quick else 20000) // sn):
        r = random.Random('%s/c13rand/%s' % (ctx.seed, i * sn + si))
        alphabet = op_alphabet(4, 2, range(8))
        ops = []
        for _ in range(r.randint(5, 40)):
            k = r.random()
            if k < 0.05:
                ops.append(('conn',))
            elif k < 0.12:
                ops.append(('bad', r.randrange(4), r.choice(['RequestName', 'RequestName', 'ReleaseName']),
                            r.choice(['', ':1.1', 'nodots', 'a..b', '1a.b', 'a.b!', 'a.' + 'b' * 300, 'org.verif.N1\n'])))
            else:
                op = r.choice(alphabet)
                if op[0] == 'disc' and r.random() < 0.6:
                    op = r.choice(alphabet)
                ops.append(op)
        run_history(ctx, 4, ops, NAMES, {'kind': 'hist', 'nclients': 4, 'ops': [list(o) for o in ops], 'names': 2})
        ctx.count('random_histories')
        if ctx.stop_early() or (i % 10 == 0 and ctx.out_of_time()):
            break
    ctx.sample({'history': [['req', 0, 0, 1], ['req', 1, 0, 0], ['req', 2, 0, 2], ['disc', 2]],
                'meaning': 'client0 owns allowing replacement; client1 queues; client2 replaces; client2 disconnects'})
    ctx.require(ctx.counters.get('histories', 0) > 100, 'too few histories')
    for k in ('reply_1', 'reply_2', 'reply_3', 'reply_4', 'hand_overs', 'disconnects_of_queued_client'):
        ctx.require(ctx.counters.get(k, 0) > 0 or ctx.known_hits or ctx.n_new_violations(), 'never observed: ' + k)


def replay(ctx, rp):
    case = rp['case']
    run_history(ctx, case['nclients'], [tuple(o) for o in case['ops']], NAMES[:case['names']], case)
